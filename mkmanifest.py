#!/usr/bin/env python3
"""Regenerates MANIFEST.json from the table below (run after adding a check)."""
import json, subprocess

def repo_hooks():
    out = subprocess.run(["git", "-C", "/repo", "log", "--format=%H %s"], capture_output=True, text=True).stdout
    return [l.split()[0] for l in out.splitlines() if "verif hook" in l]

# id -> (engine, level, technique, level text, level note, design ref)
CHECKS = {
 "C01": ("fwsim", "exploration", "deterministic simulation: closed-loop integrator + faulty report channel and clock around the real Framework, seeded search, crash/hang containment per case",
   "Seeded search over machines x histories x clock/report faults with the real framework in the loop; a panic, overflow, abort, CPU-time or RNG-word budget overrun, or more than 8*(E+1)*(M+1) machine steps in a call is a violation. 30 % of the cases drive the framework through the crate's own Instant implementation for std::time::Instant (same virtual times); one case in ten offers a machine with one field invalidated and runs it if validation accepts it. Sampling, not proof: right level for an unbounded input space whose failures need one bad (machine, history) pair.",
   "Trusts the H1 Deliver records as the step count, the harness profile (overflow-checks + debug-assertions on the repo crates) and that fair seeded streams are the random sources in scope (adversarial streams belong to C13).", "DESIGN.md §6 C01"),
 "C04": ("fwsim", "exploration", "deterministic simulation: per-call output-contract invariant over closed-loop histories with fault injection",
   "Every call of every simulated history is checked against the output contract (distinct existing ids, kind+flags of some state of the named machine, <= 24 h, nothing after END).",
   "Ended status from the H1 log / snapshot; machines come from the harness generators.", "DESIGN.md §6 C04"),
}

CHECKS["C05"] = ("fwsim", "exploration", "deterministic simulation: lock-step refinement of the real Framework against an executable reference semantics under fault-injected histories, plus twin/clone replay determinism",
   "Every call of every simulated history is compared (actions, current state, counters, remaining limit) with an independent executable reference of the stated semantics; original, identically-built twin (always on the other clock type: virtual clock vs std::time::Instant) and mid-history clone must agree forever. Seeded search incl. a densely sampled small scope; not exhaustive.",
   "Reference semantics hand-written from documentation + property statements (mirrors code where those are silent); Dist::sample trusted as a leaf for random distributions (constants, with start offset and maximum, are computed by the reference from the documented rule); comparisons within 1e-12 of a fraction limit are skipped.", "DESIGN.md §5, §6 C05")
CHECKS["C02"] = ("fwsim", "exploration", "deterministic simulation: independent recount of NormalSent/PaddingSent reports as invariant over fault-injected single-event histories",
   "Whenever a single-event call of a simulated history returns SendPadding, the budget predicate of the statement is re-evaluated from an independent recount of the reports (exact rational and f64, alarm only if both agree).",
   "Histories are sampled; batches are covered via C05.", "DESIGN.md §6 C02")
CHECKS["C03"] = ("fwsim", "exploration", "deterministic simulation: blocked time recomputed from reports and the virtual clock (stall/back/jump faults) as invariant over single-event histories",
   "Whenever a single-event call returns BlockOutgoing, blocked time and share are recomputed from BlockingBegin/BlockingEnd reports and call timestamps and the statement's disjunction is evaluated (two-way comparison at the limit).",
   "Virtual clock is u64 ns; machine start = framework start.", "DESIGN.md §6 C03")
CHECKS["C07"] = ("fwsim", "exploration", "deterministic simulation: per-stay completion counting monitor over the H1 log + lock-step with the reference semantics",
   "A statement-level monitor counts own completions per stay and checks LimitReached timing, withdrawal and that no limited action is scheduled/returned with an exhausted or zero limit; det/dyadic families also run in lock-step with the reference (remaining limit compared after every call).",
   "Statement monitor follows single-event calls (stops at the first batch; batches judged via reference). Sampled limits read from H1.", "DESIGN.md §6 C07")
CHECKS["C08"] = ("fwsim", "exploration", "deterministic simulation: counter-update records checked against independently recomputed saturating arithmetic and CounterZero timing; lock-step with the reference",
   "Every logged counter update of every simulated call is recomputed (unit/copy/constant exactly, sampled by direction), continuity with the snapshot is enforced, CounterZero must follow exactly the non-zero->zero updates, once per counter and machine per call.",
   "Counter values read from H1 records, cross-checked with the snapshot after each call.", "DESIGN.md §6 C08")
CHECKS["C09"] = ("fwsim", "exploration", "deterministic simulation: per-call signal accounting over the H1 log (who signalled, who was delivered, who had ended); lock-step with the reference",
   "For every call the exactly-once / never-the-lone-signaller / answer rule is evaluated from the log; pending signals after a call and deliveries without a signaller are violations.",
   "Signals/deliveries/END read from the H1 log.", "DESIGN.md §6 C09")
CHECKS["C10"] = ("fwsim", "exploration", "deterministic simulation: differential run (machine among neighbours vs. alone on the id-projected history)",
   "The same fault-injected history drives the combined framework and the target alone (ids renamed); the target's actions must agree call by call.",
   "Target from the det family so the shared RNG cannot matter; neighbours never signal; framework fractions 0.", "DESIGN.md §6 C10")
CHECKS["C06"] = ("drawspace", "fault_enumeration", "deterministic simulation with exhaustive enumeration of the random-source seam: all 2^23 uniform draws injected per probability vector",
   "Per generated probability vector the complete space of the uniform draw is injected through the simulated random source and the chosen targets counted against exact rational thresholds; a stratified subset also goes through Framework::trigger_events. The event the transitions are declared for is a case parameter (all 13), every other event is probed and must not move the machine, and a lookup sub-check compares sample_state / get_transitions event by event for a state with one transition per event of a random set. Exhaustive per vector, sampled across vectors.",
   "Assumes the draw is the top 23 bits of one 32-bit word (rand 0.8 f32 gen_range). Non-dyadic vectors get a tolerance of one grid step per target for legitimate rounding of partial sums.", "DESIGN.md §6 C06")
CHECKS["C14"] = ("simsut", "exploration", "deterministic simulation of the repo simulator as SUT: fault-free network baseline over generated traces, tie schedules and delays",
   "Machine-less simulations of generated traces must reproduce exactly the input send/receive times on the client and the delay-shifted mirror on the server, through sim and sim_advanced and all filters.",
   "Input sweep of the baseline channel (honestly: generation, not fault injection); times compared relative to the first base event.", "DESIGN.md §6 C14")
CHECKS["C15"] = ("simsut", "exploration", "deterministic simulation: conservation and causality oracle over the returned trace of seeded two-party simulations with machines, delays and bottlenecks",
   "For every simulated run: time order, k-th receive >= k-th send + delay per direction and kind (existence of a perfect causal matching), no creation of normal packets, equality with the input share when the run ended by itself.",
   "The repo's network model has no loss, so none is injected; 'ended by itself' derived from the configured bounds.", "DESIGN.md §6 C15")
CHECKS["C19"] = ("simsut", "exploration", "deterministic simulation: replay determinism of seeded runs, filter-projection differential, crash/hang containment per case",
   "Each seeded case is simulated repeatedly from fresh queues (different real start instants) and must give identical traces; filtered outputs must be sub-sequences of the unfiltered run; any panic/abort/hang or bound overrun is a violation.",
   "Hang = 2 s CPU per case; integration delays never enabled.", "DESIGN.md §6 C19")
CHECKS["C16"] = ("simsut", "exploration", "deterministic simulation: H2 processing log of seeded two-party simulations replayed against a per-side blocking model (expiry rule, all-allowed-bypass flag, bypass accounting), plus an exact log-position judge on the H2b timer-expiry records",
   "Every BlockingBegin/BlockingEnd and every packet leaving strictly inside a blocking window is judged against a model built from the actions the frameworks returned; known findings D6 (zero-duration blocking) and D7 (bypass flag of the last action wins) are matched narrowly and reported as KNOWN-FINDING. With the H2b expiry records a second judge takes the blocking to run from the log position of the executed BlockOutgoing to the BlockingEnd handed to the framework and judges every packet leaving in between, boundary instants included.",
   "Causing action identified via the C17 model; simultaneous events are judged against every blocking state of their instant; when several simultaneous candidate actions differ the blocking is treated as unknown until it ends (counted as ambiguous_skipped).", "DESIGN.md §6 C16, §8")
CHECKS["C17"] = ("simsut", "exploration", "deterministic simulation: H2 log replayed against a per-machine action-timer model; H2 log cross-checked by replaying each side through a fresh identically seeded framework",
   "Every PaddingSent/BlockingBegin must be caused by the pending action (kind, due time), exactly once; nothing may be overdue once simulated time has moved on; the H2b expiry records make the order of expiry against same-instant events visible, so an action cancelled or superseded at its own due instant must not expire afterwards, and every report corresponds to exactly one expiry.",
   "The actions acted upon come from the H2 hook and are validated against a fresh framework replay.", "DESIGN.md §6 C17")
CHECKS["C18"] = ("simsut", "exploration", "deterministic simulation: H2 log replayed against a per-machine internal-timer model (UpdateTimer contract)",
   "TimerBegin must follow an UpdateTimer of that instant and is owed whenever the action set or changed the timer; TimerEnd exactly once at the model's expiry, never for a cancelled/superseded timer; the H2b expiry records decide same-instant order exactly (a timer cancelled at its expiry instant before it expired must not expire).",
   "An UpdateTimer that changes nothing permits but does not require a TimerBegin.", "DESIGN.md §6 C18")
CHECKS["C13"] = ("distsim", "exploration", "deterministic simulation with fault injection on the random-source seam: scripted extreme-word prefixes followed by a fair stream, against Dist::sample and the framework's consumers, with per-case crash/hang containment",
   "Validated distributions of all 11 families (corner and random parameters) are sampled under adversarial prefixes of the random source, directly and as timeout/duration/limit/counter value inside a framework; a panic, hang (word budget / CPU limit) or out-of-range value is a violation. Parameter candidates deliberately reach one step beyond every limit validation sets (Binomial trials and probabilities, Uniform ranges up to f64::MAX, NaN / infinite / negative parameters) and are filtered by validation itself, and distributions validation rejects are offered to machine validation in every slot that holds one: whatever a relaxed validation lets through is sampled. Two defects of the rand_distr dependency (D5 hang, D9 assertion) are matched narrowly as known findings.",
   "'Real number' read as not-NaN (+inf is produced by validated parameters by construction); D5's trigger generated at a reduced rate.", "DESIGN.md §6 C13, §8")
CHECKS["C11"] = ("codec", "fault_enumeration", "deterministic simulation with fault injection on the stored artefact: corruption catalogue and exhaustive truncation/bit-flip sweeps on machine strings, compression bombs under a counting allocator, restart-from-strings behavioural comparison",
   "Fault-free baseline (round trip incl. sizes crossing 32 KiB / 256 KiB compressed and approaching 1 MiB, behavioural identity under a fault-injected history) plus the storage-fault catalogue against from_str and the legacy v1 parser; every truncation point and single-bit flip of small encodings is enumerated; peak memory of from_str is measured against 192 MiB + 4*len(input). Well-formed encodings of machines with exactly one invalid field must be refused exactly as Machine::new refuses them; where validation accepts the altered machine, the machine the parser hands out is driven for 30 events and must not bring the framework down. Every case runs on a thread of its own and parses a valid reference string before and after its inputs: an error return is a fault after which the parser must be as good as new (history independence).",
   "Round trip is input generation (the no-fault baseline of the channel). Memory constant derived from the largest machine a 1 MiB payload can describe (measured peak 68 MB).", "DESIGN.md §6 C11")
CHECKS["C20"] = ("ffisim", "exploration", "deterministic simulation: C API and Rust framework in lock-step under a virtual clock and seeded entropy (hook H3), canary-guarded output buffers, start-argument fault injection, start/stop cycles under a counting allocator",
   "Seeded batches over all event types and ids drive maybenot_on_events and identically seeded Rust reference frameworks; every written action is compared field for field, guard slots and unused slots must stay untouched, count <= num_machines; start arguments (framings, non-UTF-8, corrupt strings, bad fractions, null pointers) are compared with a harness-side reference of the Rust API; repeated start/stop must return the heap to its previous level, and so must every start that fails (null out pointer with valid machines, every rejected start-argument case); null pointers are tried with a one-event and with an empty batch.",
   "Exercised from Rust (maybenot.h not compiled). Real start instant bracketed by two references (before/after); disagreement between them ends the case as ambiguous. An over-long but never written output slice is invisible to canaries (Miri would see it).", "DESIGN.md §6 C20")
NOT_YET = {}
NA = {
 "C12": "pure predicate over one machine value: no history, clock, random draw, interleaving or stored-byte fault takes part in deciding whether validation accepts a value; deciding it is input generation (property-based testing), not deterministic simulation (DESIGN.md §7)",
}

props = [json.loads(l)["id"] for l in open("/verif/properties.jsonl")]
checks = []
for pid in props:
    if pid in CHECKS:
        eng, level, tech, text, note, ref = CHECKS[pid]
        checks.append({
            "property_id": pid,
            "quick_cmd": f"./check {pid} quick",
            "thorough_cmd": f"./check {pid} thorough",
            "evidence_file": f"/verif/evidence/{pid}.json",
            "replay_cmd_template": "./check --replay {path}",
            "engine": eng,
            "level_claimed": {"category": level, "text": text, "design_ref": ref},
            "level_note": note,
            "technique": tech,
        })
na = []
for pid in props:
    if pid in CHECKS:
        continue
    if pid in NA:
        na.append({"property_id": pid, "reason": NA[pid]})
    else:
        na.append({"property_id": pid, "reason": "not claimed yet: the check for this property has not been built in the rounds so far (planned in DESIGN.md §6); no verdict is given"})

m = {
 "version": 1,
 "setup_cmd": "./check --build",
 "hooks": {
   "guard": "cfg(maybenot_verif)",
   "enable": "RUSTFLAGS='--cfg maybenot_verif' (set by /verif/check and /verif/dst/.cargo/config.toml); the harness crate /verif/dst depends on /repo/crates/* by path, so every check rebuilds from /repo's working tree",
   "baseline_off_cmd": "cd /repo && cargo test --workspace --no-fail-fast --offline",
   "source_commits": repo_hooks(),
   "add_only": True,
 },
 "engines": [
   {"name": "fwsim", "path": "dst/src/fwsim.rs", "serves_properties": [p for p in props if p in CHECKS and CHECKS[p][0]=="fwsim"], "kind_free_text": "framework-in-the-loop discrete-event simulation with report-channel and clock fault injection"},
   {"name": "drawspace", "path": "dst/src/drawspace.rs", "serves_properties": [p for p in props if p in CHECKS and CHECKS[p][0]=="drawspace"], "kind_free_text": "RNG-seam sweep: every distinct uniform draw injected through the simulated random source"},
   {"name": "simsut", "path": "dst/src/simsut.rs", "serves_properties": [p for p in props if p in CHECKS and CHECKS[p][0]=="simsut"], "kind_free_text": "repo simulator (two frameworks + network) as system under test, history oracles"},
   {"name": "codec", "path": "dst/src/codec.rs", "serves_properties": [p for p in props if p in CHECKS and CHECKS[p][0]=="codec"], "kind_free_text": "stored-artefact fault injection on machine strings"},
   {"name": "distsim", "path": "dst/src/distsim.rs", "serves_properties": [p for p in props if p in CHECKS and CHECKS[p][0]=="distsim"], "kind_free_text": "adversarial random-source prefixes against distribution sampling"},
   {"name": "ffisim", "path": "dst/src/ffisim.rs", "serves_properties": [p for p in props if p in CHECKS and CHECKS[p][0]=="ffisim"], "kind_free_text": "C API vs Rust API lock-step under a virtual clock and seeded entropy"},
 ],
 "checks": checks,
 "not_applicable": na,
 "notes": "One technique family: deterministic simulation with fault injection (DESIGN.md). VERIF_SEED selects the seed (default 1), VERIF_SCALE multiplies case counts, VERIF_WORKERS the worker processes (default 16). Known findings: /verif/KNOWN_FINDINGS.txt.",
}
m["engines"] = [e for e in m["engines"] if e["serves_properties"]]
json.dump(m, open("/verif/MANIFEST.json", "w"), indent=1)
print("checks:", [c["property_id"] for c in checks], "na:", [n["property_id"] for n in na])

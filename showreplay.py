#!/usr/bin/env python3
import json,sys
d=json.load(open(sys.argv[1]))
print(d['property'], d['class'], '|', d['detail'], '| replays', d.get('minimiser_replays'))
c=d['case']
if c:
    for k in ['machines_readable','fracs_readable','start_ns','rng','calls','extra']:
        if k in c:
            v=c[k]
            s=json.dumps(v)
            print(' ',k,':', s[:1500])
    for k in c:
        if k not in ['machines','machines_readable','fracs_readable','start_ns','rng','calls','extra','max_padding_frac_bits','max_blocking_frac_bits']:
            print(' ',k,':', json.dumps(c[k])[:1500])

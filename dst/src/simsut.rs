//! Engine B: the repository's simulator (two frameworks joined by a network
//! model) as the system under test. Cases are explicit: trace lines, network,
//! machines on both sides, simulator arguments. Oracles work on the returned
//! trace and on the H2 log (every event handed to a framework and every action
//! it returned, in processing order).

use crate::common::*;
use crate::mach::{self, Family, MachCfg};
use crate::sup::{catch_sut, Stats};
use maybenot::{Machine, TriggerAction, TriggerEvent};
use maybenot_simulator::network::Network;
use maybenot_simulator::verif::Rec as SimRec;
use maybenot_simulator::{parse_trace, sim, sim_advanced, SimulatorArgs};
use serde::{Deserialize, Serialize};
use serde_json::{json, Value};
use std::time::Duration;

#[derive(Clone, Debug, Serialize, Deserialize, PartialEq)]
pub struct SimArgs {
    pub max_trace_length: usize,
    pub max_sim_iterations: usize,
    pub cont: bool,
    pub only_client: bool,
    pub only_net: bool,
    pub pf_c: f64,
    pub bf_c: f64,
    pub pf_s: f64,
    pub bf_s: f64,
    pub seed: u64,
    /// call `sim` instead of `sim_advanced` (only valid with default extras)
    pub via_sim: bool,
}

#[derive(Clone, Debug)]
pub struct SimCase {
    /// (time ns, sent by client?)
    pub trace: Vec<(u64, bool)>,
    /// write a third field (size) on every line
    pub third_field: bool,
    pub delay_ns: u64,
    pub pps: Option<usize>,
    pub mc: Vec<Machine>,
    pub ms: Vec<Machine>,
    pub args: SimArgs,
}

impl SimCase {
    pub fn to_json(&self) -> Value {
        json!({
            "trace": self.trace.iter().map(|(t, s)| json!([t, if *s {"s"} else {"r"}])).collect::<Vec<_>>(),
            "third_field": self.third_field,
            "delay_ns": self.delay_ns,
            "pps": self.pps,
            "client_machines": mach::enc_all(&self.mc),
            "server_machines": mach::enc_all(&self.ms),
            "client_machines_readable": self.mc.iter().map(mach::describe).collect::<Vec<_>>(),
            "server_machines_readable": self.ms.iter().map(mach::describe).collect::<Vec<_>>(),
            "args": self.args,
        })
    }
    pub fn from_json(v: &Value) -> Option<SimCase> {
        Some(SimCase {
            trace: v["trace"]
                .as_array()?
                .iter()
                .map(|l| Some((l[0].as_u64()?, l[1].as_str()? == "s")))
                .collect::<Option<Vec<_>>>()?,
            third_field: v["third_field"].as_bool().unwrap_or(false),
            delay_ns: v["delay_ns"].as_u64()?,
            pps: v["pps"].as_u64().map(|x| x as usize),
            mc: mach::dec_all(&v["client_machines"])?,
            ms: mach::dec_all(&v["server_machines"])?,
            args: serde_json::from_value(v["args"].clone()).ok()?,
        })
    }
    pub fn sample_json(&self) -> Value {
        json!({
            "trace_lines": self.trace.len(),
            "first_lines": self.trace.iter().take(10).map(|(t, s)| format!("{t},{}", if *s {"s"} else {"r"})).collect::<Vec<_>>(),
            "delay_ns": self.delay_ns, "pps": self.pps,
            "client_machines": self.mc.iter().map(mach::describe).collect::<Vec<_>>(),
            "server_machines": self.ms.iter().map(mach::describe).collect::<Vec<_>>(),
            "args": self.args,
        })
    }
    pub fn trace_string(&self) -> String {
        let mut s = String::new();
        for (i, (t, sent)) in self.trace.iter().enumerate() {
            if self.third_field {
                // the other accepted spellings: "sn"/"rn", padded timestamps, a size
                // column, lines without a direction (skipped by the parser)
                if i % 5 == 4 {
                    s.push('\n');
                }
                let dir = match (*sent, i % 2 == 1) {
                    (true, false) => "s",
                    (true, true) => "sn",
                    (false, false) => "r",
                    (false, true) => "rn",
                };
                s += &format!("{}{t},{dir},1420", if i % 3 == 0 { " " } else { "" });
            } else {
                s += &format!("{t},{}", if *sent { "s" } else { "r" });
            }
            s.push('\n');
        }
        s
    }
    /// offset of the simulator's first base event relative to trace time 0
    fn first_offset(&self) -> i128 {
        self.trace
            .iter()
            .map(|(t, s)| {
                if *s {
                    *t as i128
                } else {
                    *t as i128 - self.delay_ns as i128
                }
            })
            .min()
            .unwrap_or(0)
    }
}

/// One event of the returned trace / of the processing log, with times relative
/// to the trace's time zero (can be negative: a server send one delay before).
#[derive(Clone, Debug, PartialEq)]
pub struct TEv {
    pub t: i128,
    pub client: bool,
    /// 0 NR 1 PR 2 TR 3 NS 4 PS 5 TS 6 BB 7 BE 8 TB 9 TE
    pub kind: u8,
    pub id: usize,
    pub padding: bool,
    pub bypass: bool,
    pub replace: bool,
    pub note: Option<String>,
}

pub fn ev_kind(e: &TriggerEvent) -> (u8, usize) {
    match e {
        TriggerEvent::NormalRecv => (0, 0),
        TriggerEvent::PaddingRecv => (1, 0),
        TriggerEvent::TunnelRecv => (2, 0),
        TriggerEvent::NormalSent => (3, 0),
        TriggerEvent::PaddingSent { machine } => (4, machine.into_raw()),
        TriggerEvent::TunnelSent => (5, 0),
        TriggerEvent::BlockingBegin { machine } => (6, machine.into_raw()),
        TriggerEvent::BlockingEnd => (7, 0),
        TriggerEvent::TimerBegin { machine } => (8, machine.into_raw()),
        TriggerEvent::TimerEnd { machine } => (9, machine.into_raw()),
    }
}

pub const KIND_NAMES: [&str; 10] = [
    "NormalRecv",
    "PaddingRecv",
    "TunnelRecv",
    "NormalSent",
    "PaddingSent",
    "TunnelSent",
    "BlockingBegin",
    "BlockingEnd",
    "TimerBegin",
    "TimerEnd",
];

impl TEv {
    pub fn short(&self) -> String {
        format!(
            "{}@{}{}{}",
            KIND_NAMES[self.kind as usize],
            if self.client { "c" } else { "s" },
            if matches!(self.kind, 4 | 6 | 8 | 9) {
                format!("[m{}]", self.id)
            } else {
                String::new()
            },
            if self.padding { "(pad)" } else { "" }
        ) + &format!(" t={}", self.t)
    }
}

#[derive(Clone, Debug, PartialEq)]
pub struct AEv {
    /// 0 cancel 1 padding 2 blocking 3 timer
    pub kind: u8,
    pub machine: usize,
    pub bypass: bool,
    pub replace: bool,
    /// cancel: 0 action 1 internal 2 all
    pub timer: u8,
    pub timeout_ns: u128,
    pub duration_ns: u128,
}

pub fn act_of(a: &TriggerAction) -> AEv {
    match a {
        TriggerAction::Cancel { machine, timer } => AEv {
            kind: 0,
            machine: machine.into_raw(),
            bypass: false,
            replace: false,
            timer: match timer {
                maybenot::Timer::Action => 0,
                maybenot::Timer::Internal => 1,
                maybenot::Timer::All => 2,
            },
            timeout_ns: 0,
            duration_ns: 0,
        },
        TriggerAction::SendPadding {
            timeout,
            bypass,
            replace,
            machine,
        } => AEv {
            kind: 1,
            machine: machine.into_raw(),
            bypass: *bypass,
            replace: *replace,
            timer: 9,
            timeout_ns: timeout.as_nanos(),
            duration_ns: 0,
        },
        TriggerAction::BlockOutgoing {
            timeout,
            duration,
            bypass,
            replace,
            machine,
        } => AEv {
            kind: 2,
            machine: machine.into_raw(),
            bypass: *bypass,
            replace: *replace,
            timer: 9,
            timeout_ns: timeout.as_nanos(),
            duration_ns: duration.as_nanos(),
        },
        TriggerAction::UpdateTimer {
            duration,
            replace,
            machine,
        } => AEv {
            kind: 3,
            machine: machine.into_raw(),
            bypass: false,
            replace: *replace,
            timer: 9,
            timeout_ns: 0,
            duration_ns: duration.as_nanos(),
        },
    }
}

/// processing log: each processed event with the actions the framework returned
#[derive(Clone, Debug)]
pub struct Step {
    pub client: bool,
    pub t: i128,
    pub kind: u8,
    pub id: usize,
    pub actions: Vec<AEv>,
    /// timers the simulator let expire after the previous step and before this
    /// event was handed to the framework, in order (H2b)
    pub pre: Vec<Fire>,
}

/// An action timer (`action` = the scheduled action the simulator executed) or
/// an internal timer (`action` = None) expired at `t`.
#[derive(Clone, Debug)]
pub struct Fire {
    pub client: bool,
    pub t: i128,
    pub machine: usize,
    pub action: Option<AEv>,
}

pub struct SimOut {
    pub trace: Vec<TEv>,
    pub steps: Vec<Step>,
    /// expiries after the last processed event
    pub tail: Vec<Fire>,
}

/// Run the simulator on a case. Err = panic description.
pub fn run_sim(case: &SimCase) -> Result<SimOut, String> {
    let network = Network::new(Duration::from_nanos(case.delay_ns), case.pps);
    let ts = case.trace_string();
    let off = case.first_offset();
    maybenot_simulator::verif::enable(true);
    let r = catch_sut(|| {
        let mut sq = parse_trace(&ts, network);
        let base = sq.get_first_time();
        let tr = if case.args.via_sim {
            sim(
                &case.mc,
                &case.ms,
                &mut sq,
                Duration::from_nanos(case.delay_ns),
                case.args.max_trace_length,
                case.args.only_net,
            )
        } else {
            let mut a = SimulatorArgs::new(network, case.args.max_trace_length, case.args.only_net);
            a.max_sim_iterations = case.args.max_sim_iterations;
            a.continue_after_all_normal_packets_processed = case.args.cont;
            a.only_client_events = case.args.only_client;
            a.max_padding_frac_client = case.args.pf_c;
            a.max_blocking_frac_client = case.args.bf_c;
            a.max_padding_frac_server = case.args.pf_s;
            a.max_blocking_frac_server = case.args.bf_s;
            a.insecure_rng_seed = Some(case.args.seed);
            sim_advanced(&case.mc, &case.ms, &mut sq, &a)
        };
        (base, tr)
    });
    let log = maybenot_simulator::verif::drain();
    maybenot_simulator::verif::enable(false);
    let (base, tr) = r?;
    let Some(base) = base else {
        return Err("parse_trace produced an empty queue".into());
    };
    let rel = |t: std::time::Instant| -> i128 {
        if t >= base {
            t.duration_since(base).as_nanos() as i128 + off
        } else {
            -(base.duration_since(t).as_nanos() as i128) + off
        }
    };
    let trace = tr
        .iter()
        .map(|e| {
            let (kind, id) = ev_kind(&e.event);
            let (bypass, replace) = e.verif_flags();
            TEv {
                t: rel(e.time),
                client: e.client,
                kind,
                id,
                padding: e.contains_padding,
                bypass,
                replace,
                note: e.debug_note.clone(),
            }
        })
        .collect();
    let mut steps: Vec<Step> = vec![];
    let mut fires: Vec<Fire> = vec![];
    for r in log {
        match r {
            SimRec::ActionFired {
                is_client,
                time,
                action,
            } => {
                let a = act_of(&action);
                fires.push(Fire {
                    client: is_client,
                    t: rel(time),
                    machine: a.machine,
                    action: Some(a),
                });
            }
            SimRec::TimerFired {
                is_client,
                time,
                machine,
            } => fires.push(Fire {
                client: is_client,
                t: rel(time),
                machine,
                action: None,
            }),
            SimRec::Event {
                is_client,
                time,
                event,
            } => {
                let (kind, id) = ev_kind(&event);
                steps.push(Step {
                    client: is_client,
                    t: rel(time),
                    kind,
                    id,
                    actions: vec![],
                    pre: std::mem::take(&mut fires),
                });
            }
            SimRec::Action { action, .. } => {
                if let Some(s) = steps.last_mut() {
                    s.actions.push(act_of(&action));
                }
            }
        }
    }
    Ok(SimOut {
        trace,
        steps,
        tail: fires,
    })
}

// ---------------------------------------------------------------------------
// generation

pub fn gen_trace(g: &mut Gen, max_packets: usize) -> Vec<(u64, bool)> {
    let n = 1 + g.usize(max_packets);
    let mut t: u64 = if g.chance(0.7) { 0 } else { g.below(5_000_000) };
    let p_sent = *g.pick(&[0.1, 0.5, 0.5, 0.9, 1.0, 0.0]);
    let style = g.below(9);
    let period = *g.pick(&[20_000_000u64, 60_000_000, 110_000_000, 250_000_000]);
    // styles 7, 8: clusters of packets a hair apart, spaced around the lengths of
    // the two sliding windows that derive and enforce the packet rate (100 ms in
    // parse_trace, 1 s in the bottleneck), so that window edges fall between and
    // inside clusters
    let cluster = 1 + g.usize(4) as u64;
    let intra = *g.pick(&[0u64, 1, 1_000, 1_000_000]);
    let window = *g.pick(&[100_000_000u64, 100_000_000, 50_000_000, 1_000_000_000, 33_333_333]);
    let edge = *g.pick(&[0i64, 1, 1_000, -1, -1_000, 1_000_000]);
    let mut v = vec![];
    for i in 0..n as u64 {
        v.push((t, g.chance(p_sent)));
        let gap = match style {
            7 | 8 => {
                if i % cluster != cluster - 1 {
                    intra
                } else {
                    let inter = (window as i64 + edge) as u64;
                    let inter = inter.saturating_sub((cluster - 1) * intra);
                    if style == 8 && g.chance(0.2) {
                        inter / 2
                    } else {
                        inter
                    }
                }
            }
            0 => 0,
            1 => *g.pick(&[0, 0, 1, 1000, 1_000_000]),
            2 => g.below(50_000_000),
            3 => *g.pick(&[0, 1, 1_000, 1_000_000, 1_000_000_000, 20_000_000]),
            // sustained, regular traffic (over many seconds when the trace is long)
            5 => period,
            6 => period / 2 + g.below(period),
            _ => {
                if g.chance(0.8) {
                    g.below(2_000_000)
                } else {
                    g.below(3_000_000_000)
                }
            }
        };
        t += gap;
    }
    v
}

pub fn gen_delay(g: &mut Gen) -> u64 {
    *g.pick(&[
        0,
        1,
        1_000,
        5_000_000,
        5_000_000,
        50_000_000,
        1_000_000_000,
        10_000_000,
    ])
}

/// machines whose time scales match simulated traces
pub fn sim_mach_cfg(g: &mut Gen) -> MachCfg {
    let fam = *g.pick(&[Family::Det, Family::Dyadic, Family::Dyadic, Family::Wild]);
    let mut mc = MachCfg::new(fam);
    mc.max_states = 1 + g.usize(4);
    mc.p_trans = *g.pick(&[0.2, 0.35, 0.6]);
    mc.p_counter = *g.pick(&[0.0, 0.2, 0.5]);
    mc.p_limit = *g.pick(&[0.0, 0.3, 0.6]);
    mc.p_signal = *g.pick(&[0.0, 0.05, 0.15]);
    mc.p_end = *g.pick(&[0.0, 0.02]);
    mc.times_us = vec![0.0, 0.0, 1.0, 10.0, 100.0, 1000.0, 5000.0, 20000.0];
    mc.pad_budgets = vec![0, 1, 5, 100, u64::MAX, u64::MAX];
    mc.block_budgets = vec![0, 1000, 100_000, u64::MAX, u64::MAX];
    mc.fracs = vec![0.0, 0.0, 0.5, 0.9, 1.0];
    mc
}

pub fn gen_args(g: &mut Gen, filters: bool) -> SimArgs {
    let fr = [0.0, 0.0, 0.5, 0.9, 1.0];
    SimArgs {
        max_trace_length: if g.chance(0.2) { 1 + g.usize(300) } else { 0 },
        max_sim_iterations: *g.pick(&[200, 1000, 3000, 6000]),
        cont: g.chance(0.4),
        only_client: filters && g.chance(0.3),
        only_net: filters && g.chance(0.3),
        pf_c: *g.pick(&fr),
        bf_c: *g.pick(&fr),
        pf_s: *g.pick(&fr),
        bf_s: *g.pick(&fr),
        // any seed, corner values included (server uses seed + 1)
        seed: if g.chance(0.1) {
            *g.pick(&[0, 1, u64::MAX, u64::MAX - 1, 1 << 63])
        } else {
            g.u64()
        },
        via_sim: false,
    }
}

pub fn gen_sim_case(
    g: &mut Gen,
    max_packets: usize,
    filters: bool,
    tweak: &dyn Fn(&mut Gen, &mut MachCfg),
) -> SimCase {
    let trace = gen_trace(g, max_packets);
    let mut cfg = sim_mach_cfg(g);
    tweak(g, &mut cfg);
    let nc = *g.pick(&[0, 1, 1, 2, 3]);
    let ns = *g.pick(&[0, 0, 1, 1, 2]);
    let mc: Vec<Machine> = (0..nc).map(|_| mach::gen_machine(g, &cfg)).collect();
    let ms: Vec<Machine> = (0..ns).map(|_| mach::gen_machine(g, &cfg)).collect();
    SimCase {
        trace,
        third_field: g.chance(0.2),
        delay_ns: gen_delay(g),
        pps: if g.chance(0.25) {
            Some(*g.pick(&[1, 2, 10, 100, 1000, 10_000]))
        } else {
            None
        },
        mc,
        ms,
        args: gen_args(g, filters),
    }
}

// ---------------------------------------------------------------------------
// shrinking

pub fn shrink_sim_case(v: &Value) -> Vec<Value> {
    let Some(c) = SimCase::from_json(v) else {
        return vec![];
    };
    let mut out: Vec<SimCase> = vec![];
    for side in 0..2 {
        let ms = if side == 0 { &c.mc } else { &c.ms };
        for i in (0..ms.len()).rev() {
            let mut d = c.clone();
            if side == 0 {
                d.mc.remove(i);
            } else {
                d.ms.remove(i);
            }
            out.push(d);
        }
    }
    let n = c.trace.len();
    if n > 1 {
        let mut chunk = n / 2;
        while chunk >= 1 {
            let mut i = 0;
            while i + chunk <= n {
                if chunk < n {
                    let mut d = c.clone();
                    d.trace.drain(i..i + chunk);
                    if !d.trace.is_empty() {
                        out.push(d);
                    }
                }
                i += chunk;
            }
            if chunk == 1 {
                break;
            }
            chunk /= 2;
        }
    }
    for side in 0..2 {
        let ms = if side == 0 { &c.mc } else { &c.ms };
        for i in 0..ms.len() {
            for m2 in mach::shrink_machine(&ms[i]) {
                let mut d = c.clone();
                if side == 0 {
                    d.mc[i] = m2;
                } else {
                    d.ms[i] = m2;
                }
                out.push(d);
            }
        }
    }
    if c.delay_ns != 0 {
        let mut d = c.clone();
        d.delay_ns = 0;
        out.push(d);
        let mut d = c.clone();
        d.delay_ns = 1000;
        out.push(d);
    }
    if c.pps.is_some() {
        let mut d = c.clone();
        d.pps = None;
        out.push(d);
    }
    let a = &c.args;
    let mut push_args = |f: &dyn Fn(&mut SimArgs)| {
        let mut d = c.clone();
        f(&mut d.args);
        if d.args != c.args {
            out.push(d);
        }
    };
    push_args(&|a| a.only_client = false);
    push_args(&|a| a.only_net = false);
    push_args(&|a| a.max_trace_length = 0);
    push_args(&|a| a.cont = false);
    push_args(&|a| {
        a.pf_c = 0.0;
        a.bf_c = 0.0;
        a.pf_s = 0.0;
        a.bf_s = 0.0;
    });
    push_args(&|a| a.seed = 0);
    let _ = a;
    if c.third_field {
        let mut d = c.clone();
        d.third_field = false;
        out.push(d);
    }
    // compress the time scale
    if c.trace.iter().any(|(t, _)| *t > 0) {
        let mut d = c.clone();
        let t0 = d.trace[0].0;
        for l in d.trace.iter_mut() {
            l.0 -= t0;
        }
        if d.trace != c.trace {
            out.push(d);
        }
    }
    out.into_iter().map(|c| c.to_json()).collect()
}

pub fn shape_of(out: &SimOut, stats: &mut Stats) -> u64 {
    let mut h = Fnv::default();
    for e in &out.trace {
        h.u64(e.kind as u64 * 2 + e.client as u64);
    }
    let _ = stats;
    h.0
}

/// Thorough tier only: a fraction of the cases is made much larger (long traces,
/// more machines per side, higher iteration bound) - deeper bounds than the quick
/// tier ever reaches. Case content stays a pure function of (seed, tier).
pub fn maybe_deepen(
    g: &mut Gen,
    tier: crate::sup::Tier,
    c: &mut SimCase,
    tweak: &dyn Fn(&mut Gen, &mut MachCfg),
) {
    if tier != crate::sup::Tier::Thorough || !g.chance(0.06) {
        return;
    }
    c.trace = gen_trace(g, 2000);
    c.args.max_sim_iterations = *g.pick(&[10_000, 20_000]);
    let mut cfg = sim_mach_cfg(g);
    tweak(g, &mut cfg);
    if !c.mc.is_empty() || !c.ms.is_empty() {
        while c.mc.len() < 4 && g.chance(0.5) {
            c.mc.push(mach::gen_machine(g, &cfg));
        }
        while c.ms.len() < 3 && g.chance(0.4) {
            c.ms.push(mach::gen_machine(g, &cfg));
        }
    }
}

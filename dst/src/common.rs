//! Shared small things: seed derivation, the harness-side generator `Gen`, the
//! simulated random source `SimRng` handed to the framework, the virtual clock
//! `VInstant`, fixed-key hashing.

use rand_core::{RngCore, SeedableRng};
use rand_xoshiro::Xoshiro256StarStar;
use serde::{Deserialize, Serialize};
use std::cell::Cell;

pub fn splitmix64(mut x: u64) -> u64 {
    x = x.wrapping_add(0x9E3779B97F4A7C15);
    let mut z = x;
    z = (z ^ (z >> 30)).wrapping_mul(0xBF58476D1CE4E5B9);
    z = (z ^ (z >> 27)).wrapping_mul(0x94D049BB133111EB);
    z ^ (z >> 31)
}

pub fn fnv1a(s: &[u8]) -> u64 {
    let mut h: u64 = 0xcbf29ce484222325;
    for b in s {
        h ^= *b as u64;
        h = h.wrapping_mul(0x100000001b3);
    }
    h
}

/// Incremental fixed-key hasher (FNV-1a over u64 words).
#[derive(Clone, Copy)]
pub struct Fnv(pub u64);
impl Default for Fnv {
    fn default() -> Self {
        Fnv(0xcbf29ce484222325)
    }
}
impl Fnv {
    pub fn u64(&mut self, v: u64) {
        for i in 0..8 {
            self.0 ^= (v >> (8 * i)) & 0xff;
            self.0 = self.0.wrapping_mul(0x100000001b3);
        }
    }
    pub fn bytes(&mut self, b: &[u8]) {
        for x in b {
            self.0 ^= *x as u64;
            self.0 = self.0.wrapping_mul(0x100000001b3);
        }
    }
}

pub fn case_seed(verif_seed: u64, prop: &str, k: u64) -> u64 {
    splitmix64(verif_seed ^ fnv1a(prop.as_bytes()) ^ k.wrapping_mul(0x9E3779B97F4A7C15))
}

/// Harness-side generator: every choice of a case is drawn from one of these.
pub struct Gen {
    x: Xoshiro256StarStar,
}

impl Gen {
    pub fn new(seed: u64) -> Self {
        Gen {
            x: Xoshiro256StarStar::seed_from_u64(seed),
        }
    }
    pub fn u64(&mut self) -> u64 {
        self.x.next_u64()
    }
    /// uniform in 0..n (n > 0)
    pub fn below(&mut self, n: u64) -> u64 {
        debug_assert!(n > 0);
        // multiply-shift, bias irrelevant here
        ((self.x.next_u64() as u128 * n as u128) >> 64) as u64
    }
    pub fn usize(&mut self, n: usize) -> usize {
        self.below(n as u64) as usize
    }
    /// inclusive range
    pub fn range(&mut self, lo: u64, hi: u64) -> u64 {
        lo + self.below(hi - lo + 1)
    }
    pub fn f01(&mut self) -> f64 {
        (self.x.next_u64() >> 11) as f64 / (1u64 << 53) as f64
    }
    pub fn chance(&mut self, p: f64) -> bool {
        self.f01() < p
    }
    pub fn bool(&mut self) -> bool {
        self.x.next_u64() & 1 == 1
    }
    pub fn pick<'a, T>(&mut self, v: &'a [T]) -> &'a T {
        &v[self.usize(v.len())]
    }
    pub fn pickc<T: Copy>(&mut self, v: &[T]) -> T {
        v[self.usize(v.len())]
    }
    pub fn fork(&mut self) -> Gen {
        Gen::new(self.u64())
    }
}

// --------------------------------------------------------------------------
// SimRng: the random source handed to the system under test.

thread_local! {
    /// words handed out by any SimRng on this thread since the last reset
    pub static RNG_WORDS: Cell<u64> = const { Cell::new(0) };
    /// budget; exceeding it panics with a typed payload
    pub static RNG_BUDGET: Cell<u64> = const { Cell::new(u64::MAX) };
    /// the word every draw returns in ConstPerCall mode
    pub static CALL_WORD: Cell<u64> = const { Cell::new(0) };
}

/// Panic payload used when the RNG word budget of a call is exceeded.
pub struct RngBudgetExceeded;

pub fn rng_reset(budget: u64) {
    RNG_WORDS.with(|w| w.set(0));
    RNG_BUDGET.with(|b| b.set(budget));
}
pub fn rng_words() -> u64 {
    RNG_WORDS.with(|w| w.get())
}
pub fn set_call_word(w: u64) {
    CALL_WORD.with(|c| c.set(w));
}

#[derive(Clone, Debug, Serialize, Deserialize, PartialEq)]
pub enum RngSpec {
    /// fair Xoshiro256** stream
    Free(u64),
    /// scripted prefix, then fair stream
    Script { prefix: Vec<u64>, seed: u64 },
    /// every draw of call k returns words[k % len]
    ConstPerCall(Vec<u64>),
    /// panics when touched
    Forbidden,
}

#[derive(Clone, Debug)]
pub enum SimRng {
    Free(Xoshiro256StarStar),
    Script {
        prefix: Vec<u64>,
        pos: usize,
        then: Xoshiro256StarStar,
    },
    ConstPerCall,
    Forbidden,
}

impl SimRng {
    pub fn new(spec: &RngSpec) -> SimRng {
        match spec {
            RngSpec::Free(s) => SimRng::Free(Xoshiro256StarStar::seed_from_u64(*s)),
            RngSpec::Script { prefix, seed } => SimRng::Script {
                prefix: prefix.clone(),
                pos: 0,
                then: Xoshiro256StarStar::seed_from_u64(*seed),
            },
            RngSpec::ConstPerCall(_) => SimRng::ConstPerCall,
            RngSpec::Forbidden => SimRng::Forbidden,
        }
    }
    #[inline]
    fn word(&mut self) -> u64 {
        let n = RNG_WORDS.with(|w| {
            let n = w.get() + 1;
            w.set(n);
            n
        });
        if n > RNG_BUDGET.with(|b| b.get()) {
            std::panic::panic_any(RngBudgetExceeded);
        }
        match self {
            SimRng::Free(x) => x.next_u64(),
            SimRng::Script { prefix, pos, then } => {
                if *pos < prefix.len() {
                    *pos += 1;
                    prefix[*pos - 1]
                } else {
                    then.next_u64()
                }
            }
            SimRng::ConstPerCall => CALL_WORD.with(|c| c.get()),
            SimRng::Forbidden => panic!("SimRng::Forbidden: random source touched"),
        }
    }
}

impl RngCore for SimRng {
    fn next_u32(&mut self) -> u32 {
        (self.word() >> 32) as u32
    }
    fn next_u64(&mut self) -> u64 {
        self.word()
    }
    fn fill_bytes(&mut self, dest: &mut [u8]) {
        for c in dest.chunks_mut(8) {
            let w = self.word().to_le_bytes();
            c.copy_from_slice(&w[..c.len()]);
        }
    }
    fn try_fill_bytes(&mut self, dest: &mut [u8]) -> Result<(), rand_core::Error> {
        self.fill_bytes(dest);
        Ok(())
    }
}

// --------------------------------------------------------------------------
// virtual clock

#[derive(Clone, Copy, Debug, PartialEq, Eq, PartialOrd, Ord)]
pub struct VInstant(pub u64);

impl maybenot::time::Instant for VInstant {
    type Duration = std::time::Duration;
    fn saturating_duration_since(&self, earlier: Self) -> Self::Duration {
        std::time::Duration::from_nanos(self.0.saturating_sub(earlier.0))
    }
}

pub fn micros(us: u64) -> u64 {
    us.saturating_mul(1000)
}

//! C16 (blocking honoured), C17 (action timers), C18 (internal timers): the H2
//! processing log of a simulation (every event handed to a framework, every
//! action it returned) is replayed against small per-side models of the
//! integrator contract from lib.rs.

use crate::common::*;
use crate::props_sim::*;
use crate::simsut::*;
use crate::sup::{EngineInfo, Stats, Tier, Violation};
use maybenot::Framework;
use rand_core::SeedableRng;
use rand_xoshiro::Xoshiro256StarStar;

#[derive(Clone, Debug)]
struct Pending {
    due: i128,
    kind: u8, // 1 padding, 2 blocking
    bypass: bool,
    replace: bool,
    duration: i128,
    /// may or may not fire (an equally matching action fired at the same instant)
    optional: bool,
}

#[derive(Clone, Debug)]
struct Block {
    begin: i128,
    expiry: i128,
    /// every action that started or updated this blocking allowed bypass
    all_bypass: bool,
    /// the last action that started or updated it allowed bypass
    last_bypass: bool,
    /// started or last updated by a zero-duration action at its own instant
    zero: bool,
}

#[derive(Default)]
struct Side {
    pending: Vec<Option<Pending>>,
    timer: Vec<Option<i128>>,
    /// (time, owed) TimerBegin reports expected for each machine
    tb: Vec<Vec<(i128, bool)>>,
    block: Option<Block>,
    /// bypass accounting over the run so far: bypass paddings fired (all / with
    /// replace) and bypass-flagged packets that left (all / normal ones)
    minted_total: u64,
    minted_replace: u64,
    used_total: u64,
    used_normal: u64,
    /// a zero-duration blocking action fired at this instant (D6 marker)
    zero_block_fired_at: Option<i128>,
    /// same-instant ties: an action that was due at instant t and was superseded
    /// or cancelled at that very instant may or may not fire (both orders are
    /// legitimate schedules of simultaneous events)
    firing_now: Vec<Vec<(i128, Pending)>>,
    /// same for an internal timer replaced or cancelled at its expiry instant
    expiring_now: Vec<Option<i128>>,
    /// packets that left inside a blocking window and were not eligible when
    /// they left: judged again once the instant is over (the blocking may be
    /// updated by a simultaneous event)
    suspects: Vec<Suspect>,
    /// which of two simultaneous, equally matching blocking actions caused the
    /// current blocking is unknown: C16 judgements are suspended until it ends
    uncertain: bool,
}

struct Suspect {
    /// the packet was eligible under some blocking state of its instant
    eligible_any: bool,
    /// the D7 pattern (last updater allowed bypass) held at some point of the instant
    d7_then: bool,
    t: i128,
    padding: bool,
    bypass_flag: bool,
    token_ok: bool,
}

pub struct ModelViolation {
    pub prop: &'static str,
    pub class: String,
    pub detail: String,
}

pub struct ModelStats {
    pub paddings: u64,
    pub blocks: u64,
    pub timer_ends: u64,
    pub superseded: u64,
    pub cancels: u64,
    pub tunnel_during_block: u64,
    pub overlapping_blocks: u64,
    pub timer_updates_not_set: u64,
    pub ties: u64,
    pub uncertain: u64,
}

fn side_name(c: bool) -> &'static str {
    if c {
        "client"
    } else {
        "server"
    }
}

/// Replays the processing log. Returns the first violation of each property.
pub fn replay_model(case: &SimCase, out: &SimOut, ms: &mut ModelStats) -> Vec<ModelViolation> {
    let mut v: Vec<ModelViolation> = vec![];
    let mut sides = [Side::default(), Side::default()]; // 0 = client, 1 = server
    for (i, s) in sides.iter_mut().enumerate() {
        let n = if i == 0 { case.mc.len() } else { case.ms.len() };
        s.pending = vec![None; n];
        s.timer = vec![None; n];
        s.tb = vec![vec![]; n];
        s.firing_now = vec![vec![]; n];
        s.expiring_now = vec![None; n];
    }
    let aligned =
        out.trace.len() == out.steps.len()
            && out.trace.iter().zip(out.steps.iter()).all(|(a, b)| {
                a.kind == b.kind && a.client == b.client && a.t == b.t && a.id == b.id
            });
    fn push(v: &mut Vec<ModelViolation>, prop: &'static str, class: &str, detail: String) {
        if !v.iter().any(|x| x.prop == prop) {
            v.push(ModelViolation {
                prop,
                class: class.to_string(),
                detail,
            });
        }
    }
    for (i, st) in out.steps.iter().enumerate() {
        let t = st.t;
        // ---- 1. nothing may be overdue once simulated time has moved past it
        for (si, s) in sides.iter().enumerate() {
            let sn = side_name(si == 0);
            for (m, p) in s.pending.iter().enumerate() {
                if let Some(p) = p {
                    if p.due < t && !p.optional {
                        push(
                            &mut v,
                            "C17",
                            "action-not-fired",
                            format!(
                                "{sn} machine {m}: {} action due at {} did not fire before simulated time reached {t} (step {i}: {})",
                                if p.kind == 1 { "SendPadding" } else { "BlockOutgoing" },
                                p.due,
                                KIND_NAMES[st.kind as usize]
                            ),
                        );
                    }
                }
            }
            for (m, e) in s.timer.iter().enumerate() {
                if let Some(e) = e {
                    if *e < t {
                        push(
                            &mut v,
                            "C18",
                            "timer-end-missing",
                            format!("{sn} machine {m}: internal timer expired at {e} but no TimerEnd was reported before simulated time reached {t}"),
                        );
                    }
                }
            }
            for (m, l) in s.tb.iter().enumerate() {
                if let Some((t0, _)) = l.iter().find(|(t0, owed)| *owed && *t0 < t) {
                    push(
                        &mut v,
                        "C18",
                        "timer-begin-missing",
                        format!("{sn} machine {m}: UpdateTimer at {t0} set the internal timer but no TimerBegin was reported at that instant (time is now {t})"),
                    );
                }
            }
            if let Some(b) = &s.block {
                if b.expiry < t && !s.uncertain {
                    let class = if b.zero {
                        "d6-zero-duration-blocking"
                    } else {
                        "blocking-end-missing"
                    };
                    push(
                        &mut v,
                        "C16",
                        class,
                        format!(
                            "{sn}: blocking begun at {} should end at {} but no BlockingEnd was reported before simulated time reached {t}",
                            b.begin, b.expiry
                        ),
                    );
                }
            }
        }
        for (sidx, s) in sides.iter_mut().enumerate() {
            judge_suspects(s, side_name(sidx == 0), Some(t), &mut v);
        }
        if v.len() >= 3 {
            break;
        }
        let si = if st.client { 0 } else { 1 };
        let sn = side_name(st.client);
        // drop stale permitted / owed entries from earlier instants
        for l in sides[si].tb.iter_mut() {
            l.retain(|(t0, owed)| *t0 >= t || *owed);
        }
        if sides[si].zero_block_fired_at.map_or(false, |z| z < t) {
            sides[si].zero_block_fired_at = None;
        }
        for f in sides[si].firing_now.iter_mut() {
            f.retain(|x| x.0 >= t);
        }
        for f in sides[si].expiring_now.iter_mut() {
            if f.map_or(false, |x| x < t) {
                *f = None;
            }
        }
        let nm = sides[si].pending.len();
        // ---- 2. the event itself
        match st.kind {
            4 | 6 => {
                let want = if st.kind == 4 { 1 } else { 2 };
                let name = KIND_NAMES[st.kind as usize];
                if st.id >= nm {
                    push(
                        &mut v,
                        "C17",
                        "unknown-machine",
                        format!("{sn}: {name} for machine {} which does not exist", st.id),
                    );
                } else {
                    // same-instant ties: an action due now that was superseded at this
                    // very instant may have fired before or after being superseded
                    let cur_match = matches!(&sides[si].pending[st.id], Some(p) if p.kind == want && p.due == t);
                    let tie_pos = sides[si].firing_now[st.id]
                        .iter()
                        .position(|(t0, old)| *t0 == t && old.kind == want);
                    let tie_match = tie_pos.is_some();
                    let mut alt_token: Option<bool> = None;
                    if want == 2 {
                        // several simultaneous candidates with different parameters:
                        // which one caused this BlockingBegin cannot be known
                        let mut params: Vec<(i128, bool, bool)> = sides[si].firing_now[st.id]
                            .iter()
                            .filter(|(t0, old)| *t0 == t && old.kind == 2)
                            .map(|(_, o)| (o.duration, o.bypass, o.replace))
                            .collect();
                        if let Some(p) = &sides[si].pending[st.id] {
                            if p.kind == 2 && p.due == t {
                                params.push((p.duration, p.bypass, p.replace));
                            }
                        }
                        params.dedup();
                        params.sort();
                        params.dedup();
                        if params.len() > 1 {
                            sides[si].uncertain = true;
                            ms.uncertain += 1;
                        }
                    }
                    let taken = if tie_match {
                        ms.ties += 1;
                        let old = Some(sides[si].firing_now[st.id].remove(tie_pos.unwrap()).1);
                        if cur_match {
                            // either of the two may be the cause
                            let cur = sides[si].pending[st.id].as_mut().unwrap();
                            cur.optional = true;
                            if want == 1 && cur.bypass {
                                // the padding that left may be the other one: its
                                // token is as permissive as either candidate allows
                                alt_token = Some(cur.replace);
                            }
                            let o = old.as_ref().unwrap();
                            if want == 2
                                && (o.duration, o.bypass, o.replace)
                                    != (cur.duration, cur.bypass, cur.replace)
                            {
                                sides[si].uncertain = true;
                                ms.uncertain += 1;
                            }
                        }
                        old
                    } else {
                        sides[si].pending[st.id].take()
                    };
                    match taken {
                        None => push(
                            &mut v,
                            "C17",
                            "fired-without-action",
                            format!("{sn} machine {}: {name} at {t} but no action of that machine is pending (superseded, cancelled or already fired)", st.id),
                        ),
                        Some(p) => {
                            if p.kind != want {
                                push(
                                    &mut v,
                                    "C17",
                                    "fired-wrong-kind",
                                    format!("{sn} machine {}: {name} at {t} but the most recent action is a {}", st.id, if p.kind == 1 { "SendPadding" } else { "BlockOutgoing" }),
                                );
                            } else if p.due != t {
                                push(
                                    &mut v,
                                    "C17",
                                    "fired-at-wrong-time",
                                    format!("{sn} machine {}: {name} at {t} but the most recent action was due at {}", st.id, p.due),
                                );
                            }
                            if st.kind == 4 {
                                ms.paddings += 1;
                                if p.bypass {
                                    sides[si].minted_total += 1;
                                    if p.replace || alt_token.unwrap_or(false) {
                                        sides[si].minted_replace += 1;
                                    }
                                } else if let Some(r) = alt_token {
                                    sides[si].minted_total += 1;
                                    if r {
                                        sides[si].minted_replace += 1;
                                    }
                                }
                            } else {
                                ms.blocks += 1;
                                let until = t + p.duration;
                                let zero = p.duration == 0;
                                if zero {
                                    sides[si].zero_block_fired_at = Some(t);
                                }
                                match sides[si].block.as_mut() {
                                    None => {
                                        sides[si].block = Some(Block {
                                            begin: t,
                                            expiry: until,
                                            all_bypass: p.bypass,
                                            last_bypass: p.bypass,
                                            zero,
                                        })
                                    }
                                    Some(b) => {
                                        ms.overlapping_blocks += 1;
                                        if p.replace || until > b.expiry {
                                            b.expiry = until;
                                            b.all_bypass = b.all_bypass && p.bypass;
                                            b.last_bypass = p.bypass;
                                            b.zero = zero;
                                        }
                                    }
                                }
                                // packets that left at this very instant are judged
                                // against every blocking state of the instant
                                if let Some(b) = sides[si].block.clone() {
                                    for su in sides[si].suspects.iter_mut().filter(|su| su.t == t) {
                                        if b.all_bypass && su.bypass_flag && su.token_ok {
                                            su.eligible_any = true;
                                        }
                                        if !b.all_bypass && b.last_bypass && su.bypass_flag && su.token_ok {
                                            su.d7_then = true;
                                        }
                                    }
                                }
                            }
                        }
                    }
                }
            }
            7 => {
                let zero_here = sides[si].zero_block_fired_at == Some(t)
                    || sides[si]
                        .pending
                        .iter()
                        .flatten()
                        .any(|p| p.kind == 2 && p.due == t && p.duration == 0);
                let was_uncertain = sides[si].uncertain;
                sides[si].uncertain = false;
                sides[si].suspects.clear();
                match sides[si].block.take() {
                    _ if was_uncertain => {}
                    None => push(
                        &mut v,
                        "C16",
                        if zero_here { "d6-zero-duration-blocking" } else { "blocking-end-unexpected" },
                        format!("{sn}: BlockingEnd at {t} but no blocking is active (never begun, or already ended)"),
                    ),
                    Some(b) => {
                        if b.expiry != t {
                            push(
                                &mut v,
                                "C16",
                                if zero_here || b.zero { "d6-zero-duration-blocking" } else { "blocking-end-wrong-time" },
                                format!("{sn}: BlockingEnd at {t} but the blocking begun at {} expires at {}", b.begin, b.expiry),
                            );
                        }
                    }
                }
            }
            8 => {
                if st.id >= nm {
                    push(
                        &mut v,
                        "C18",
                        "unknown-machine",
                        format!(
                            "{sn}: TimerBegin for machine {} which does not exist",
                            st.id
                        ),
                    );
                } else {
                    let l = &mut sides[si].tb[st.id];
                    let pos = l
                        .iter()
                        .position(|(t0, owed)| *t0 == t && *owed)
                        .or_else(|| l.iter().position(|(t0, _)| *t0 == t));
                    match pos {
                        Some(p) => {
                            l.remove(p);
                        }
                        None => push(
                            &mut v,
                            "C18",
                            "timer-begin-without-update",
                            format!("{sn} machine {}: TimerBegin at {t} does not follow an UpdateTimer action returned at that instant", st.id),
                        ),
                    }
                }
            }
            9 => {
                if st.id >= nm {
                    push(
                        &mut v,
                        "C18",
                        "unknown-machine",
                        format!("{sn}: TimerEnd for machine {} which does not exist", st.id),
                    );
                } else {
                    ms.timer_ends += 1;
                    let tie = sides[si].expiring_now[st.id] == Some(t)
                        && sides[si].timer[st.id] != Some(t);
                    let taken = if tie {
                        ms.ties += 1;
                        sides[si].expiring_now[st.id].take()
                    } else {
                        sides[si].timer[st.id].take()
                    };
                    match taken {
                        None => push(
                            &mut v,
                            "C18",
                            "timer-end-without-timer",
                            format!("{sn} machine {}: TimerEnd at {t} but no internal timer is running (cancelled, superseded or already ended)", st.id),
                        ),
                        Some(e) => {
                            if e != t {
                                push(
                                    &mut v,
                                    "C18",
                                    "timer-end-wrong-time",
                                    format!("{sn} machine {}: TimerEnd at {t} but the timer expires at {e}", st.id),
                                );
                            }
                        }
                    }
                }
            }
            5 => {
                // a packet leaves this side
                let (padding, bypass_flag) = if aligned {
                    (out.trace[i].padding, out.trace[i].bypass)
                } else {
                    (false, false)
                };
                let inside = sides[si]
                    .block
                    .as_ref()
                    .map_or(false, |b| b.begin < t && t < b.expiry);
                let mut token_ok = false;
                if bypass_flag {
                    // every bypass-flagged packet must be backed by a bypass padding
                    // action that fired; a normal one by one that also had replace
                    let s = &mut sides[si];
                    s.used_total += 1;
                    if !padding {
                        s.used_normal += 1;
                    }
                    token_ok = s.used_total <= s.minted_total
                        && (padding || s.used_normal <= s.minted_replace);
                }
                if inside && aligned {
                    ms.tunnel_during_block += 1;
                    let b = sides[si].block.as_ref().unwrap();
                    if !(b.all_bypass && bypass_flag && token_ok) && !sides[si].uncertain {
                        let d7_then = !b.all_bypass && b.last_bypass && bypass_flag && token_ok;
                        sides[si].suspects.push(Suspect {
                            eligible_any: false,
                            d7_then,
                            t,
                            padding,
                            bypass_flag,
                            token_ok,
                        });
                    }
                }
            }
            _ => {}
        }
        // ---- 3. actions returned for this event
        for a in &st.actions {
            if a.machine >= nm {
                continue;
            }
            let s = &mut sides[si];
            match a.kind {
                0 => {
                    ms.cancels += 1;
                    if a.timer == 0 || a.timer == 2 {
                        if let Some(p) = s.pending[a.machine].take() {
                            if p.due == t {
                                s.firing_now[a.machine].push((t, p));
                            }
                        }
                    }
                    if a.timer == 1 || a.timer == 2 {
                        if s.timer[a.machine] == Some(t) {
                            s.expiring_now[a.machine] = Some(t);
                        }
                        s.timer[a.machine] = None;
                    }
                }
                1 | 2 => {
                    if let Some(p) = s.pending[a.machine].take() {
                        ms.superseded += 1;
                        if p.due == t {
                            s.firing_now[a.machine].push((t, p));
                        }
                    }
                    s.pending[a.machine] = Some(Pending {
                        due: t + a.timeout_ns as i128,
                        kind: a.kind,
                        bypass: a.bypass,
                        replace: a.replace,
                        duration: a.duration_ns as i128,
                        optional: false,
                    });
                }
                _ => {
                    let until = t + a.duration_ns as i128;
                    let set = a.replace
                        || match s.timer[a.machine] {
                            None => true,
                            Some(e) => until > e,
                        };
                    if set {
                        if s.timer[a.machine] == Some(t) && until != t {
                            s.expiring_now[a.machine] = Some(t);
                        }
                        s.timer[a.machine] = Some(until);
                    } else {
                        ms.timer_updates_not_set += 1;
                    }
                    s.tb[a.machine].push((t, set));
                }
            }
        }
    }
    // the last instant of the log may be incomplete (stop conditions): only what
    // simulated time has already passed is judged
    let last_t = out.steps.last().map(|s| s.t);
    for (sidx, s) in sides.iter_mut().enumerate() {
        judge_suspects(s, side_name(sidx == 0), last_t, &mut v);
    }
    v
}

/// Judge packets that left inside a blocking window once their instant is over.
fn judge_suspects(s: &mut Side, sn: &str, now: Option<i128>, v: &mut Vec<ModelViolation>) {
    let mut keep = vec![];
    for su in s.suspects.drain(..) {
        if now.map_or(false, |n| su.t >= n) {
            keep.push(su);
            continue;
        }
        // state of the blocking after every simultaneous event has been seen
        if s.uncertain {
            continue;
        }
        let Some(b) = s.block.as_ref() else { continue };
        if !(b.begin < su.t && su.t < b.expiry) {
            continue;
        }
        if su.eligible_any || (b.all_bypass && su.bypass_flag && su.token_ok) {
            continue;
        }
        let class =
            if su.d7_then || (!b.all_bypass && b.last_bypass && su.bypass_flag && su.token_ok) {
                "d7-bypass-flag-overwritten"
            } else {
                "leak-during-blocking"
            };
        if !v.iter().any(|x| x.prop == "C16") {
            v.push(ModelViolation {
                prop: "C16",
                class: class.to_string(),
                detail: format!(
                    "{sn}: {} packet left at {} during blocking ({}..{}); every blocking action allowed bypass: {}, last one: {}, packet carries bypass: {}, backed by a bypass padding action: {}",
                    if su.padding { "padding" } else { "normal" },
                    su.t,
                    b.begin,
                    b.expiry,
                    b.all_bypass,
                    b.last_bypass,
                    su.bypass_flag,
                    su.token_ok
                ),
            });
        }
    }
    s.suspects = keep;
}

/// C17 cross-check of the H2 log itself: replaying each side's events through a
/// fresh, identically seeded framework must give the logged actions.
fn crosscheck_h2(case: &SimCase, out: &SimOut) -> Option<String> {
    let off = out.steps.first().map(|s| s.t).unwrap_or(0);
    let base = case
        .trace
        .iter()
        .map(|(t, s)| {
            if *s {
                *t as i128
            } else {
                *t as i128 - case.delay_ns as i128
            }
        })
        .min()
        .unwrap_or(off);
    for client in [true, false] {
        let (ms, pf, bf, seed) = if client {
            (&case.mc, case.args.pf_c, case.args.bf_c, case.args.seed)
        } else {
            (
                &case.ms,
                case.args.pf_s,
                case.args.bf_s,
                case.args.seed.wrapping_add(1),
            )
        };
        let Ok(mut fw) = Framework::new(
            ms.as_slice(),
            pf,
            bf,
            VInstant(0),
            Xoshiro256StarStar::seed_from_u64(seed),
        ) else {
            return None;
        };
        for (i, st) in out
            .steps
            .iter()
            .enumerate()
            .filter(|(_, s)| s.client == client)
        {
            let ev = match st.kind {
                0 => crate::fwsim::Ev::NR,
                1 => crate::fwsim::Ev::PR,
                2 => crate::fwsim::Ev::TR,
                3 => crate::fwsim::Ev::NS,
                4 => crate::fwsim::Ev::PS(st.id as u64),
                5 => crate::fwsim::Ev::TS,
                6 => crate::fwsim::Ev::BB(st.id as u64),
                7 => crate::fwsim::Ev::BE,
                8 => crate::fwsim::Ev::TB(st.id as u64),
                _ => crate::fwsim::Ev::TE(st.id as u64),
            };
            let now = VInstant((st.t - base).max(0) as u64);
            let got: Vec<AEv> = fw
                .trigger_events(&[ev.to_trigger()], now)
                .map(|a| {
                    let r = crate::fwsim::ActionRec::from(a);
                    AEv {
                        kind: r.kind,
                        machine: r.machine,
                        bypass: r.bypass,
                        replace: r.replace,
                        timer: r.timer,
                        timeout_ns: r.timeout_ns,
                        duration_ns: r.duration_ns,
                    }
                })
                .collect();
            if got != st.actions {
                return Some(format!(
                    "step {i} ({} {} at {}): a fresh identically seeded framework returns {:?} but the simulator acted on {:?}",
                    side_name(client),
                    KIND_NAMES[st.kind as usize],
                    st.t,
                    got,
                    st.actions
                ));
            }
        }
    }
    None
}

fn run_model(
    prop: &'static str,
    case: &SimCase,
    stats: &mut Stats,
) -> (Vec<(String, String)>, Option<(SimOut, ModelStats)>) {
    let out = match run_sim(case) {
        Ok(o) => o,
        Err(_) => {
            stats.inc("aborted_in_sut");
            return (vec![], None);
        }
    };
    account(stats, &out);
    let mut ms = ModelStats {
        paddings: 0,
        blocks: 0,
        timer_ends: 0,
        superseded: 0,
        cancels: 0,
        tunnel_during_block: 0,
        overlapping_blocks: 0,
        timer_updates_not_set: 0,
        ties: 0,
        uncertain: 0,
    };
    let mut v = replay_model(case, &out, &mut ms);
    // the exact judge (H2b expiry records) adds what the tie tolerance above lets pass
    let mut xs = crate::props_simexact::ExactStats::default();
    for x in crate::props_simexact::replay_exact(case, &out, &mut xs) {
        if !v.iter().any(|y| y.prop == x.prop) {
            stats.inc("violation_seen_only_by_exact_judge");
            v.push(x);
        }
    }
    stats.add("probe.action_timer_expiries", xs.action_expiries);
    stats.add("probe.internal_timer_expiries", xs.timer_expiries);
    stats.add("probe.action_cancelled_or_superseded_at_its_due_instant", xs.cancelled_at_due_instant);
    stats.add("probe.action_fired_then_cancelled_or_superseded_same_instant", xs.fired_then_cancelled_same_instant);
    stats.add("probe.internal_timer_cancelled_or_changed_at_its_expiry_instant", xs.timer_cancelled_at_expiry_instant);
    stats.add("probe.internal_timer_expired_then_changed_same_instant", xs.timer_fired_then_changed_same_instant);
    stats.add("probe.packet_left_while_blocking_active_by_log_position", xs.packet_left_while_blocked);
    stats.add("probe.packet_left_at_the_instant_blocking_began_or_ended", xs.packet_left_at_block_boundary_instant);
    stats.add("probe.action_superseded_before_firing", ms.superseded);
    stats.add("probe.cancel_actions", ms.cancels);
    stats.add(
        "probe.packet_left_during_blocking_window",
        ms.tunnel_during_block,
    );
    stats.add("probe.overlapping_blocking_actions", ms.overlapping_blocks);
    stats.add(
        "probe.update_timer_not_changing_timer",
        ms.timer_updates_not_set,
    );
    stats.add("probe.timer_end", ms.timer_ends);
    stats.add("probe.same_instant_tie_tolerated", ms.ties);
    stats.add("ambiguous_skipped", ms.uncertain);
    let mine: Vec<(String, String)> = v
        .into_iter()
        .filter(|x| x.prop == prop)
        .map(|x| (x.class, x.detail))
        .collect();
    (mine, Some((out, ms)))
}

fn gen_unfiltered(
    g: &mut Gen,
    tier: Tier,
    tweak: &dyn Fn(&mut Gen, &mut crate::mach::MachCfg),
) -> SimCase {
    let n = *g.pick(&[5, 30, 100, 200]);
    let mut c = gen_sim_case(g, n, false, tweak);
    maybe_deepen(g, tier, &mut c, tweak);
    c.args.max_trace_length = 0;
    if c.mc.is_empty() && c.ms.is_empty() {
        let mut cfg = sim_mach_cfg(g);
        tweak(g, &mut cfg);
        c.mc.push(crate::mach::gen_machine(g, &cfg));
    }
    c
}

// ===========================================================================

pub struct C16;
pub struct C17;
pub struct C18;

impl SimProp for C16 {
    fn info(&self) -> EngineInfo {
        EngineInfo {
            property: "C16",
            engine: "simsut",
            level: "exploration",
            rule: "case = trace x delay x optional pps x 1..3 client / 0..2 server machines biased to BlockOutgoing (all four flag combinations, durations from 0, overlapping and back-to-back blocks from several machines) and SendPadding (all four flag combinations) x seeds, unfiltered output; the H2 log is replayed against a per-side blocking model (begin at the action's firing, expiry by the replace / longer-of-two rule, all-allowed-bypass flag, bypass tokens minted by bypass padding actions); BlockingEnd must be reported exactly at the expiry, once, after the begin; a packet leaving strictly inside a blocking window must be bypass-eligible; a second, exact judge uses the H2b expiry records: the blocking runs from the log position at which the BlockOutgoing was executed to the BlockingEnd handed to the framework, and every packet that leaves between those two log positions (boundary instants included) must be bypass-eligible; distinct = hash of the returned (event kind, side) sequence; non-trivial = at least one blocking took place".into(),
            assumptions: vec![
                "the first model judges a packet only when it leaves strictly inside the window (begin < t < expiry) and suspends judgement when two simultaneous blocking actions with different parameters could both be the cause; the exact judge has neither restriction but mirrors known finding D6 (a zero-duration, non-replacing action on an idle side starts no blocking)".into(),
                "the action that causes a BlockingBegin is identified by the C17 model (most recent action of that machine)".into(),
                "bypass / padding flags of packets are read from the returned trace via the H2 flag accessor".into(),
            ],
            real_components: SIM_REAL.to_vec(),
            stubbed_components: SIM_STUB.to_vec(),
            totality: false,
            cpu_limit_s: 10,
            exhaustive: false,
        }
    }
    fn n_cases(&self, tier: Tier) -> u64 {
        match tier {
            Tier::Quick => 120_000,
            Tier::Thorough => 3_000_000,
        }
    }
    fn generate(&self, g: &mut Gen, tier: Tier) -> SimCase {
        let mut c = gen_unfiltered(g, tier, &|g, mc| {
            mc.action_w = [1, 1, 4, 6, 1];
            mc.times_us = vec![0.0, 1.0, 10.0, 100.0, 1000.0, 5000.0, 20000.0];
            mc.p_trans = *g.pick(&[0.3, 0.5, 0.7]);
            mc.block_budgets = vec![u64::MAX];
            mc.pad_budgets = vec![u64::MAX];
            mc.fracs = vec![0.0];
        });
        // flag twins: a copy of one machine of a side with the same timeouts and
        // durations but the opposite bypass flag (and replace set) on its blocking
        // actions, and bypass set on its paddings: two blocking actions that fire at
        // the same instant, expire at the same instant and disagree about bypass
        if g.chance(0.25) {
            let client = g.bool();
            let side = if client { &mut c.mc } else { &mut c.ms };
            if !side.is_empty() && side.len() < 4 {
                let mut t = side[g.usize(side.len())].clone();
                let force_replace = g.bool();
                for st in t.states.iter_mut() {
                    match st.action.as_mut() {
                        Some(maybenot::action::Action::BlockOutgoing { bypass, replace, .. }) => {
                            *bypass = !*bypass;
                            if force_replace {
                                *replace = true;
                            }
                        }
                        Some(maybenot::action::Action::SendPadding { bypass, .. }) => *bypass = true,
                        _ => {}
                    }
                }
                if g.bool() {
                    side.push(t);
                } else {
                    side.insert(0, t);
                }
            }
        }
        c
    }
    fn check(&self, case: &SimCase, stats: &mut Stats) -> Vec<(String, String)> {
        let (v, o) = run_model("C16", case, stats);
        if let Some((out, ms)) = o {
            if v.is_empty() && ms.blocks >= 1 {
                let sh = shape_of(&out, stats);
                stats.shapes.insert(sh);
            }
        }
        v
    }
    fn known_finding(&self, v: &Violation) -> Option<&'static str> {
        match v.class.as_str() {
            "d6-zero-duration-blocking" => Some("D6"),
            "d7-bypass-flag-overwritten" => Some("D7"),
            _ => None,
        }
    }
}

impl SimProp for C17 {
    fn info(&self) -> EngineInfo {
        EngineInfo {
            property: "C17",
            engine: "simsut",
            level: "exploration",
            rule: "case = trace x delay x optional pps x several machines per side with SendPadding / BlockOutgoing timeouts from 0, actions re-issued before they fire, Cancel of each timer kind x seeds, unfiltered output; the H2 log is replayed against a per-machine action-timer model (most recent action, due = issue time + timeout, superseded by a newer action or Cancel{Action|All}); every PaddingSent / BlockingBegin must match the pending action's kind and due time and consume it; no pending action may be overdue once simulated time has moved past it; a second, exact judge uses the H2b expiry records: an action timer may only expire for the action pending for that machine at that log position (not cancelled or superseded, not even at that very instant), exactly at issue time + timeout, with the flags and duration of that action, and every PaddingSent / BlockingBegin reports exactly one such expiry of the same kind and time; the H2 log itself is cross-checked by replaying each side's events through a fresh identically seeded framework; distinct = hash of the returned (event kind, side) sequence; non-trivial = at least one action fired and at least one was superseded or cancelled".into(),
            assumptions: vec![
                "the actions the simulator acted on are taken from the H2 log and validated against a fresh framework replay (same machines, fractions, seed; virtual clock relative to the first base event)".into(),
            ],
            real_components: SIM_REAL.to_vec(),
            stubbed_components: SIM_STUB.to_vec(),
            totality: false,
            cpu_limit_s: 10,
            exhaustive: false,
        }
    }
    fn n_cases(&self, tier: Tier) -> u64 {
        match tier {
            Tier::Quick => 120_000,
            Tier::Thorough => 3_000_000,
        }
    }
    fn generate(&self, g: &mut Gen, tier: Tier) -> SimCase {
        gen_unfiltered(g, tier, &|g, mc| {
            mc.action_w = [1, 3, 5, 4, 1];
            mc.p_trans = *g.pick(&[0.3, 0.5, 0.8]);
        })
    }
    fn check(&self, case: &SimCase, stats: &mut Stats) -> Vec<(String, String)> {
        let (mut v, o) = run_model("C17", case, stats);
        if let Some((out, ms)) = o {
            if v.is_empty() {
                if let Some(d) = crosscheck_h2(case, &out) {
                    v.push(("actions-not-from-framework".into(), d));
                }
            }
            if v.is_empty() && (ms.paddings + ms.blocks) >= 1 && (ms.superseded + ms.cancels) >= 1 {
                let sh = shape_of(&out, stats);
                stats.shapes.insert(sh);
            }
        }
        v
    }
}

impl SimProp for C18 {
    fn info(&self) -> EngineInfo {
        EngineInfo {
            property: "C18",
            engine: "simsut",
            level: "exploration",
            rule: "case = trace x delay x optional pps x machines on both sides biased to UpdateTimer (both replace settings, durations from 0, repeated updates at the same instant) and Cancel of the internal timer x seeds, unfiltered output; the H2 log is replayed against a per-machine internal-timer model (set on replace / no timer running / later expiry); every TimerBegin must follow an UpdateTimer returned at that instant, a TimerBegin is owed whenever the action set or changed the timer, TimerEnd exactly once at the model's expiry and never for a cancelled or superseded timer; a second, exact judge uses the H2b expiry records: the internal timer may only expire if it is running at that log position, exactly at its expiry, and every TimerEnd reports exactly one such expiry; distinct = hash of the returned (event kind, side) sequence; non-trivial = at least one TimerEnd was reported".into(),
            assumptions: vec![
                "an UpdateTimer that does not change the timer (no replace, not later) permits but does not require a TimerBegin".into(),
            ],
            real_components: SIM_REAL.to_vec(),
            stubbed_components: SIM_STUB.to_vec(),
            totality: false,
            cpu_limit_s: 10,
            exhaustive: false,
        }
    }
    fn n_cases(&self, tier: Tier) -> u64 {
        match tier {
            Tier::Quick => 120_000,
            Tier::Thorough => 3_000_000,
        }
    }
    fn generate(&self, g: &mut Gen, tier: Tier) -> SimCase {
        gen_unfiltered(g, tier, &|g, mc| {
            mc.action_w = [1, 3, 2, 1, 8];
            mc.p_trans = *g.pick(&[0.3, 0.5, 0.8]);
        })
    }
    fn check(&self, case: &SimCase, stats: &mut Stats) -> Vec<(String, String)> {
        let (v, o) = run_model("C18", case, stats);
        if let Some((out, ms)) = o {
            if v.is_empty() && ms.timer_ends >= 1 {
                let sh = shape_of(&out, stats);
                stats.shapes.insert(sh);
            }
        }
        v
    }
}

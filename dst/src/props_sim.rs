//! Engine-B properties: C14, C15, C19 (trace-level oracles). C16-C18 are in
//! props_simtimers.rs (they replay the H2 log against small models).

use crate::common::*;
use crate::simsut::*;
use crate::sup::{panic_class, Engine, EngineInfo, Stats, Tier, Violation};
use serde_json::Value;

pub trait SimProp {
    fn info(&self) -> EngineInfo;
    fn n_cases(&self, tier: Tier) -> u64;
    fn generate(&self, g: &mut Gen, tier: Tier) -> SimCase;
    /// returns violations as (class, detail)
    fn check(&self, case: &SimCase, stats: &mut Stats) -> Vec<(String, String)>;
    fn known_finding(&self, _v: &Violation) -> Option<&'static str> {
        None
    }
}

pub struct SimEngine<P: SimProp>(pub P);

impl<P: SimProp> SimEngine<P> {
    fn run(&self, case: &SimCase, stats: &mut Stats) -> Vec<Violation> {
        self.0
            .check(case, stats)
            .into_iter()
            .map(|(c, d)| Violation::new(&c, d, Some(case.to_json())))
            .collect()
    }
}

impl<P: SimProp> Engine for SimEngine<P> {
    fn info(&self) -> EngineInfo {
        self.0.info()
    }
    fn n_cases(&self, tier: Tier) -> u64 {
        self.0.n_cases(tier)
    }
    fn run_case(&self, k: u64, seed: u64, tier: Tier, stats: &mut Stats) -> Vec<Violation> {
        let mut g = Gen::new(seed);
        let case = self.0.generate(&mut g, tier);
        if k < 3 {
            stats.samples.push(case.sample_json());
        }
        self.run(&case, stats)
    }
    fn replay(&self, case: &Value, stats: &mut Stats) -> Vec<Violation> {
        match SimCase::from_json(case) {
            Some(c) => self.run(&c, stats),
            None => vec![],
        }
    }
    fn shrink(&self, case: &Value) -> Vec<Value> {
        shrink_sim_case(case)
    }
    fn known_finding(&self, v: &Violation) -> Option<&'static str> {
        self.0.known_finding(v)
    }
}

pub const SIM_REAL: [&str; 4] = [
    "maybenot_simulator::parse_trace / sim / sim_advanced (pick_next, queues, network, delay, blocking)",
    "maybenot::Framework on client and server (seeded Xoshiro256**)",
    "maybenot::Machine and all action/counter/dist code",
    "std::time::Instant arithmetic of the simulator (only differences are observed)",
];
pub const SIM_STUB: [&str; 3] = [
    "input traces, machines, network parameters and simulator arguments: seeded generators",
    "integration delays: never enabled (the properties exclude them)",
    "oracles: trace-level accounting and small timer/blocking models replaying the H2 log",
];

pub fn account(stats: &mut Stats, out: &SimOut) {
    stats.add("sim_events", out.trace.len() as u64);
    stats.add("sim_steps", out.steps.len() as u64);
    stats.add(
        "actions",
        out.steps.iter().map(|s| s.actions.len() as u64).sum(),
    );
    if let (Some(a), Some(b)) = (out.trace.first(), out.trace.last()) {
        stats.add("sim_time_us", ((b.t - a.t).max(0) / 1000) as u64);
    }
    for e in &out.trace {
        match e.kind {
            4 => stats.probe("padding_sent"),
            6 => stats.probe("blocking_begin"),
            8 => stats.probe("timer_begin"),
            _ => {}
        }
    }
}

fn sorted_by_time(tr: &[TEv]) -> Option<String> {
    for w in tr.windows(2) {
        if w[1].t < w[0].t {
            return Some(format!(
                "returned trace not ordered by time: {} before {}",
                w[0].short(),
                w[1].short()
            ));
        }
    }
    None
}

// ===========================================================================
// C14

pub struct C14;

impl SimProp for C14 {
    fn info(&self) -> EngineInfo {
        EngineInfo {
            property: "C14",
            engine: "simsut",
            level: "exploration",
            rule: "case = trace of 1..400 packets (direction mixes incl. one-sided, gaps {0, 1ns, us, ms, s}, bursts with identical timestamps, optional third field, first timestamp 0 or later) x network delay {0,1ns,1us,5ms,10ms,50ms,1s} x {sim, sim_advanced} x filters (only_client, only_network) x continue flag, no machines, no explicit pps; oracle: per side the sorted TunnelSent / TunnelRecv times equal the trace's send / receive times (mirror shifted by the delay), no padding, no machine events, trace time-ordered; distinct = hash of the returned (event kind, side) sequence; non-trivial = trace has >= 2 packets".into(),
            assumptions: vec![
                "honest scoping: this is the fault-free baseline of the simulated network (input sweep); the schedule that matters is the tie order of simultaneous events on both sides".into(),
                "times are compared relative to the queue's first base event (the simulator's real start Instant is only an offset)".into(),
            ],
            real_components: SIM_REAL.to_vec(),
            stubbed_components: SIM_STUB.to_vec(),
            totality: false,
            cpu_limit_s: 10,
            exhaustive: false,
        }
    }
    fn n_cases(&self, tier: Tier) -> u64 {
        match tier {
            Tier::Quick => 200_000,
            Tier::Thorough => 5_000_000,
        }
    }
    fn generate(&self, g: &mut Gen, _tier: Tier) -> SimCase {
        let maxp = *g.pick(&[3, 20, 100, 400]);
        let trace = gen_trace(g, maxp);
        let n = trace.len();
        let via_sim = g.chance(0.4);
        let args = SimArgs {
            max_trace_length: if g.chance(0.2) { 8 * n + 50 } else { 0 },
            max_sim_iterations: if via_sim || g.chance(0.5) {
                0
            } else {
                8 * n + 50
            },
            cont: !via_sim && g.chance(0.5),
            only_client: !via_sim && g.chance(0.4),
            only_net: g.chance(0.5),
            pf_c: 0.0,
            bf_c: 0.0,
            pf_s: 0.0,
            bf_s: 0.0,
            seed: g.u64(),
            via_sim,
        };
        SimCase {
            trace,
            third_field: g.chance(0.3),
            delay_ns: gen_delay(g),
            pps: None,
            mc: vec![],
            ms: vec![],
            args,
        }
    }
    fn check(&self, case: &SimCase, stats: &mut Stats) -> Vec<(String, String)> {
        let out = match run_sim(case) {
            Ok(o) => o,
            Err(_) => {
                stats.inc("aborted_in_sut");
                return vec![];
            }
        };
        account(stats, &out);
        let d = case.delay_ns as i128;
        let mut s_times: Vec<i128> = case
            .trace
            .iter()
            .filter(|l| l.1)
            .map(|l| l.0 as i128)
            .collect();
        let mut r_times: Vec<i128> = case
            .trace
            .iter()
            .filter(|l| !l.1)
            .map(|l| l.0 as i128)
            .collect();
        s_times.sort();
        r_times.sort();
        stats.probe_if(
            "burst_same_timestamp",
            case.trace.windows(2).any(|w| w[0].0 == w[1].0),
        );
        stats.probe_if(
            "both_directions",
            !s_times.is_empty() && !r_times.is_empty(),
        );
        stats.probe_if("zero_delay", d == 0);
        let mut v = vec![];
        if let Some(e) = sorted_by_time(&out.trace) {
            v.push(("unordered".into(), e));
            return v;
        }
        let pick = |client: bool, kind: u8| -> Vec<i128> {
            let mut x: Vec<i128> = out
                .trace
                .iter()
                .filter(|e| e.client == client && e.kind == kind)
                .map(|e| e.t)
                .collect();
            x.sort();
            x
        };
        let cmp = |name: &str, got: Vec<i128>, want: Vec<i128>| -> Option<(String, String)> {
            if got != want {
                let i = got
                    .iter()
                    .zip(want.iter())
                    .position(|(a, b)| a != b)
                    .unwrap_or(got.len().min(want.len()));
                Some((
                    "baseline-mismatch".into(),
                    format!(
                        "{name}: {} events, trace prescribes {}; first difference at index {i}: got {:?}, want {:?}",
                        got.len(),
                        want.len(),
                        got.get(i),
                        want.get(i)
                    ),
                ))
            } else {
                None
            }
        };
        if let Some(x) = cmp("client TunnelSent", pick(true, 5), s_times.clone()) {
            v.push(x);
        }
        if let Some(x) = cmp("client TunnelRecv", pick(true, 2), r_times.clone()) {
            v.push(x);
        }
        if !case.args.only_client {
            if let Some(x) = cmp(
                "server TunnelRecv",
                pick(false, 2),
                s_times.iter().map(|t| t + d).collect(),
            ) {
                v.push(x);
            }
            if let Some(x) = cmp(
                "server TunnelSent",
                pick(false, 5),
                r_times.iter().map(|t| t - d).collect(),
            ) {
                v.push(x);
            }
        }
        for e in &out.trace {
            if e.padding || matches!(e.kind, 1 | 4 | 6 | 7 | 8 | 9) {
                v.push((
                    "foreign-event".into(),
                    format!("{} in a simulation without machines", e.short()),
                ));
                break;
            }
            if case.args.only_net && !matches!(e.kind, 2 | 5) {
                v.push((
                    "foreign-event".into(),
                    format!("{} although only network activity was requested", e.short()),
                ));
                break;
            }
            if case.args.only_client && !e.client {
                v.push((
                    "foreign-event".into(),
                    format!("{} although only client events were requested", e.short()),
                ));
                break;
            }
        }
        if v.is_empty() && case.trace.len() >= 2 {
            let sh = shape_of(&out, stats);
            stats.shapes.insert(sh);
        }
        v
    }
}

// ===========================================================================
// C15

pub struct C15;

impl SimProp for C15 {
    fn info(&self) -> EngineInfo {
        EngineInfo {
            property: "C15",
            engine: "simsut",
            level: "exploration",
            rule: "case = trace of 1..300 packets x delay x optional pps bottleneck (1..10000) x 0..3 client and 0..2 server machines from simulator-scaled families (padding with all flag combinations, blocking, timers, cancels, counters, signals, limits; timeouts/durations from 0 to 20 ms and wild distributions) x fractions x seed x both stop modes, unfiltered output; oracle: trace time-ordered; per direction and kind the k-th earliest receive is at least one delay after the k-th earliest send and receives never outnumber sends (a perfect causal matching exists iff this holds); normal sends per side <= its share of the input trace, with equality when the run ended by itself; every NormalRecv / PaddingRecv matches a tunnel-received packet of that kind at that instant; distinct = hash of the returned (event kind, side) sequence; non-trivial = at least one padding packet crossed the network or blocking occurred".into(),
            assumptions: vec![
                "'ended by itself' = fewer events than max_sim_iterations and than max_trace_length (if set)".into(),
                "message loss on the simulated network is not injected: the repository's network model has none, conservation is a property of that model".into(),
            ],
            real_components: SIM_REAL.to_vec(),
            stubbed_components: SIM_STUB.to_vec(),
            totality: false,
            cpu_limit_s: 10,
            exhaustive: false,
        }
    }
    fn n_cases(&self, tier: Tier) -> u64 {
        match tier {
            Tier::Quick => 150_000,
            Tier::Thorough => 4_000_000,
        }
    }
    fn generate(&self, g: &mut Gen, tier: Tier) -> SimCase {
        let n = *g.pick(&[5, 30, 100, 300]);
        // a third of the cases: machines that block and pad with every flag
        // combination (packets held back, replaced, released by bypass)
        let heavy = g.chance(0.35);
        let tweak = |g: &mut Gen, mc: &mut crate::mach::MachCfg| {
            if heavy {
                mc.action_w = [1, 1, 5, 5, 1];
                mc.times_us = vec![0.0, 1.0, 10.0, 100.0, 1000.0, 5000.0, 20000.0];
                mc.p_trans = *g.pick(&[0.3, 0.5, 0.7]);
                mc.block_budgets = vec![u64::MAX];
                mc.pad_budgets = vec![u64::MAX];
                mc.fracs = vec![0.0];
            }
        };
        let mut c = gen_sim_case(g, n, false, &tweak);
        maybe_deepen(g, tier, &mut c, &tweak);
        c
    }
    fn check(&self, case: &SimCase, stats: &mut Stats) -> Vec<(String, String)> {
        let out = match run_sim(case) {
            Ok(o) => o,
            Err(_) => {
                stats.inc("aborted_in_sut");
                return vec![];
            }
        };
        account(stats, &out);
        let mut v = vec![];
        if let Some(e) = sorted_by_time(&out.trace) {
            v.push(("unordered".into(), e));
            return v;
        }
        let d = case.delay_ns as i128;
        let mut interesting = false;
        for from_client in [true, false] {
            for padding in [false, true] {
                let mut s: Vec<i128> = out
                    .trace
                    .iter()
                    .filter(|e| e.kind == 5 && e.client == from_client && e.padding == padding)
                    .map(|e| e.t)
                    .collect();
                let mut r: Vec<i128> = out
                    .trace
                    .iter()
                    .filter(|e| e.kind == 2 && e.client != from_client && e.padding == padding)
                    .map(|e| e.t)
                    .collect();
                s.sort();
                r.sort();
                if padding && !r.is_empty() {
                    interesting = true;
                }
                let who = format!(
                    "{} packets from {}",
                    if padding { "padding" } else { "normal" },
                    if from_client { "client" } else { "server" }
                );
                if r.len() > s.len() {
                    v.push((
                        "recv-without-send".into(),
                        format!("{who}: {} received but only {} sent", r.len(), s.len()),
                    ));
                    continue;
                }
                for (k, rt) in r.iter().enumerate() {
                    if s[k] + d > *rt {
                        v.push((
                            "causality".into(),
                            format!(
                                "{who}: the {k}-th earliest receive is at {rt} but the {k}-th earliest send at {} + delay {d}",
                                s[k]
                            ),
                        ));
                        break;
                    }
                }
            }
        }
        // at the receiver: every NormalRecv / PaddingRecv is the unwrapping of a
        // tunnel-received packet of that kind at that instant on that side (normal
        // packets are never created, padding never turns into payload)
        for client in [true, false] {
            for (kind, padding, name) in [(0u8, false, "NormalRecv"), (1u8, true, "PaddingRecv")] {
                let mut got: Vec<i128> = out.trace.iter().filter(|e| e.kind == kind && e.client == client).map(|e| e.t).collect();
                let mut src: Vec<i128> = out
                    .trace
                    .iter()
                    .filter(|e| e.kind == 2 && e.client == client && e.padding == padding)
                    .map(|e| e.t)
                    .collect();
                got.sort();
                src.sort();
                let mut j = 0;
                for t in &got {
                    while j < src.len() && src[j] < *t {
                        j += 1;
                    }
                    if j < src.len() && src[j] == *t {
                        j += 1;
                    } else {
                        v.push((
                            "recv-kind-mismatch".into(),
                            format!(
                                "{}: {name} at {t} without a tunnel-received {} packet at that instant",
                                if client { "client" } else { "server" },
                                if padding { "padding" } else { "normal" }
                            ),
                        ));
                        break;
                    }
                }
            }
        }
        if out.trace.iter().any(|e| e.kind == 6) {
            interesting = true;
        }
        let ended_by_itself = out.trace.len() < case.args.max_sim_iterations
            && (case.args.max_trace_length == 0 || out.trace.len() < case.args.max_trace_length);
        stats.probe_if("ended_by_itself", ended_by_itself);
        stats.probe_if("pps_bottleneck_configured", case.pps.is_some());
        for client in [true, false] {
            let share = case.trace.iter().filter(|l| l.1 == client).count();
            let ns = out
                .trace
                .iter()
                .filter(|e| e.kind == 3 && e.client == client)
                .count();
            let ts = out
                .trace
                .iter()
                .filter(|e| e.kind == 5 && e.client == client && !e.padding)
                .count();
            let side = if client { "client" } else { "server" };
            if ns > share || ts > share {
                v.push((
                    "normal-created".into(),
                    format!("{side}: {ns} NormalSent / {ts} normal TunnelSent but its share of the input trace is {share}"),
                ));
            } else if ended_by_itself && (ns != share || ts != share) {
                v.push((
                    "normal-lost".into(),
                    format!("{side}: run ended by itself with {ns} NormalSent / {ts} normal TunnelSent, share of the input trace is {share}"),
                ));
            }
        }
        if v.is_empty() && interesting {
            let sh = shape_of(&out, stats);
            stats.shapes.insert(sh);
        }
        v
    }
}

// ===========================================================================
// C19

pub struct C19;

fn diff_traces(a: &[TEv], b: &[TEv]) -> Option<String> {
    if a.len() != b.len() {
        return Some(format!("lengths {} vs {}", a.len(), b.len()));
    }
    for (i, (x, y)) in a.iter().zip(b.iter()).enumerate() {
        if x != y {
            return Some(format!("index {i}: {} vs {}", x.short(), y.short()));
        }
    }
    None
}

impl SimProp for C19 {
    fn info(&self) -> EngineInfo {
        EngineInfo {
            property: "C19",
            engine: "simsut",
            level: "exploration",
            rule: "case = everything of C15-C18 plus explicit pps 1..10000, all stop-condition settings (max_trace_length, max_sim_iterations, continue flag) and output filters; each case is simulated twice from freshly parsed queues (different real start instants) and compared on relative times and all public fields; with max_trace_length = 0 each of the three filtered outputs must equal the corresponding sub-sequence of the unfiltered one; a panic (any internal BUG assertion, unwrap, Instant arithmetic), abort or hang is a violation; length bounds are checked; distinct = hash of the returned (event kind, side) sequence; non-trivial = at least one machine present and the run returned >= 4 events".into(),
            assumptions: vec![
                "'network activity' sub-sequence = TunnelSent and TunnelRecv events; 'client' sub-sequence = events with the client flag".into(),
                "hangs: 2 s CPU-time limit per case plus the supervisor's wall-clock watchdog".into(),
            ],
            real_components: SIM_REAL.to_vec(),
            stubbed_components: SIM_STUB.to_vec(),
            totality: true,
            cpu_limit_s: 10,
            exhaustive: false,
        }
    }
    fn n_cases(&self, tier: Tier) -> u64 {
        match tier {
            Tier::Quick => 60_000,
            Tier::Thorough => 1_500_000,
        }
    }
    fn generate(&self, g: &mut Gen, tier: Tier) -> SimCase {
        let n = *g.pick(&[5, 30, 100, 300]);
        let mut c = gen_sim_case(g, n, true, &|_, _| {});
        if g.chance(0.4) {
            c.pps = Some(*g.pick(&[1, 2, 5, 10, 100, 1000, 10_000]));
        }
        maybe_deepen(g, tier, &mut c, &|_, _| {});
        c
    }
    fn check(&self, case: &SimCase, stats: &mut Stats) -> Vec<(String, String)> {
        let mut v = vec![];
        let a = match run_sim(case) {
            Ok(o) => o,
            Err(p) => {
                v.push((panic_class(&p), format!("simulation panicked: {p}")));
                return v;
            }
        };
        account(stats, &a);
        // (i) reproducible (one further run; 8 while minimising, 32 in a replay)
        let reps = crate::sup::repeat_runs();
        for rep in 0..reps {
          match run_sim(case) {
            Ok(b) => {
                if let Some(d) = diff_traces(&a.trace, &b.trace) {
                    v.push((
                        "not-reproducible".into(),
                        format!("two runs of the same seeded case differ: {d}"),
                    ));
                    return v;
                }
            }
            Err(p) => {
                v.push((
                    "not-reproducible".into(),
                    format!("second run panicked: {p}"),
                ));
                return v;
            }
          }
          let _ = rep;
        }
        if let Some(e) = sorted_by_time(&a.trace) {
            v.push(("unordered".into(), e));
        }
        // (iii) bounds
        let mtl = case.args.max_trace_length;
        if mtl > 0 && a.trace.len() > mtl {
            v.push((
                "over-length".into(),
                format!("{} events returned, max_trace_length {mtl}", a.trace.len()),
            ));
        }
        if !case.args.only_client
            && !case.args.only_net
            && a.trace.len() > case.args.max_sim_iterations
        {
            v.push((
                "over-iterations".into(),
                format!(
                    "{} events returned, max_sim_iterations {}",
                    a.trace.len(),
                    case.args.max_sim_iterations
                ),
            ));
        }
        stats.probe_if(
            "stopped_by_iterations",
            a.steps.len() >= case.args.max_sim_iterations,
        );
        stats.probe_if("stopped_by_trace_length", mtl > 0 && a.trace.len() >= mtl);
        // (ii) filters are projections
        let mut base = case.clone();
        base.args.max_trace_length = 0;
        base.args.only_client = false;
        base.args.only_net = false;
        let full = match run_sim(&base) {
            Ok(o) => o,
            Err(p) => {
                v.push((panic_class(&p), format!("simulation panicked: {p}")));
                return v;
            }
        };
        for (oc, on) in [(true, false), (false, true), (true, true)] {
            let mut f = base.clone();
            f.args.only_client = oc;
            f.args.only_net = on;
            let got = match run_sim(&f) {
                Ok(o) => o,
                Err(p) => {
                    v.push((panic_class(&p), format!("simulation panicked: {p}")));
                    return v;
                }
            };
            let want: Vec<TEv> = full
                .trace
                .iter()
                .filter(|e| (!oc || e.client) && (!on || matches!(e.kind, 2 | 5)))
                .cloned()
                .collect();
            if let Some(d) = diff_traces(&got.trace, &want) {
                v.push((
                    "filter-not-projection".into(),
                    format!("only_client_events={oc} only_network_activity={on}: filtered output is not the sub-sequence of the unfiltered trace: {d}"),
                ));
                break;
            }
        }
        if v.is_empty() && (case.mc.len() + case.ms.len()) > 0 && a.trace.len() >= 4 {
            let sh = shape_of(&a, stats);
            stats.shapes.insert(sh);
        }
        v
    }
}

struct StderrLog;
impl log::Log for StderrLog {
    fn enabled(&self, _: &log::Metadata<'_>) -> bool {
        true
    }
    fn log(&self, r: &log::Record<'_>) {
        eprintln!("{}", r.args());
    }
    fn flush(&self) {}
}
static LOGGER: StderrLog = StderrLog;

/// debugging aid: print the processing log of a replay file's case
pub fn dump(path: &str) {
    if std::env::var("VERIF_SIMLOG").is_ok() {
        let _ = log::set_logger(&LOGGER);
        log::set_max_level(log::LevelFilter::Debug);
    }
    let doc: Value =
        serde_json::from_str(&std::fs::read_to_string(path).expect("read")).expect("json");
    let Some(case) = SimCase::from_json(&doc["case"]) else {
        println!("not a simulator case");
        return;
    };
    match run_sim(&case) {
        Err(p) => println!("panic: {p}"),
        Ok(out) => {
            let show_fire = |f: &Fire| {
                println!(
                    "     t={:>14} {} expiry: {}",
                    f.t,
                    if f.client { "C" } else { "S" },
                    match &f.action {
                        Some(a) => format!(
                            "action timer of m{} -> {}(b{} r{} dur{}) executed",
                            f.machine,
                            ["Cancel", "Pad", "Block", "Timer"][a.kind as usize],
                            a.bypass as u8,
                            a.replace as u8,
                            a.duration_ns
                        ),
                        None => format!("internal timer of m{}", f.machine),
                    }
                );
            };
            for (i, s) in out.steps.iter().enumerate() {
                for f in &s.pre {
                    show_fire(f);
                }
                let tr = out.trace.get(i);
                println!(
                    "{i:4} t={:>14} {} {}{} {} -> {:?}",
                    s.t,
                    if s.client { "C" } else { "S" },
                    KIND_NAMES[s.kind as usize],
                    if matches!(s.kind, 4 | 6 | 8 | 9) {
                        format!("[m{}]", s.id)
                    } else {
                        String::new()
                    },
                    tr.map(|t| format!(
                        "pad={} byp={} rep={}",
                        t.padding as u8, t.bypass as u8, t.replace as u8
                    ))
                    .unwrap_or_default(),
                    s.actions
                        .iter()
                        .map(|a| format!(
                            "{}(m{} b{} r{} t{} to{} dur{})",
                            ["Cancel", "Pad", "Block", "Timer"][a.kind as usize],
                            a.machine,
                            a.bypass as u8,
                            a.replace as u8,
                            a.timer,
                            a.timeout_ns,
                            a.duration_ns
                        ))
                        .collect::<Vec<_>>()
                );
            }
            for f in &out.tail {
                show_fire(f);
            }
        }
    }
}

//! Engine A: framework-in-the-loop discrete-event simulation.
//!
//! A case is an explicit open-loop history (machines, fractions, start instant,
//! RNG script, sequence of `(events, now)` calls). Histories are *generated* by
//! a closed loop: a model integrator (two timers per machine, one global
//! blocking state, an application/peer workload) executes the actions the real
//! framework returns and reports what happened back through a faulty report
//! channel and a faulty clock. The history that loop produced is then replayed
//! against a fresh framework with the property's oracle attached; replay files
//! and the minimiser only ever see the open-loop form.

use crate::common::*;
use crate::mach;
use crate::sup::{catch_sut, panic_class, Stats, Violation};
use maybenot::verif::{Rec, Snapshot};
use maybenot::{Framework, Machine, MachineId, Timer, TriggerAction, TriggerEvent};
use serde::{Deserialize, Serialize};
use serde_json::{json, Value};
use std::time::Duration;

#[derive(Serialize, Deserialize, Clone, Copy, PartialEq, Eq, Debug, Hash)]
pub enum Ev {
    NR,
    PR,
    TR,
    NS,
    PS(u64),
    TS,
    BB(u64),
    BE,
    TB(u64),
    TE(u64),
}

impl Ev {
    pub fn to_trigger(self) -> TriggerEvent {
        let id = |x: u64| MachineId::from_raw(x as usize);
        match self {
            Ev::NR => TriggerEvent::NormalRecv,
            Ev::PR => TriggerEvent::PaddingRecv,
            Ev::TR => TriggerEvent::TunnelRecv,
            Ev::NS => TriggerEvent::NormalSent,
            Ev::PS(m) => TriggerEvent::PaddingSent { machine: id(m) },
            Ev::TS => TriggerEvent::TunnelSent,
            Ev::BB(m) => TriggerEvent::BlockingBegin { machine: id(m) },
            Ev::BE => TriggerEvent::BlockingEnd,
            Ev::TB(m) => TriggerEvent::TimerBegin { machine: id(m) },
            Ev::TE(m) => TriggerEvent::TimerEnd { machine: id(m) },
        }
    }
    pub fn kind(self) -> u64 {
        match self {
            Ev::NR => 0,
            Ev::PR => 1,
            Ev::TR => 2,
            Ev::NS => 3,
            Ev::PS(_) => 4,
            Ev::TS => 5,
            Ev::BB(_) => 6,
            Ev::BE => 7,
            Ev::TB(_) => 8,
            Ev::TE(_) => 9,
        }
    }
    pub fn id(self) -> Option<u64> {
        match self {
            Ev::PS(m) | Ev::BB(m) | Ev::TB(m) | Ev::TE(m) => Some(m),
            _ => None,
        }
    }
    pub fn with_id(self, m: u64) -> Ev {
        match self {
            Ev::PS(_) => Ev::PS(m),
            Ev::BB(_) => Ev::BB(m),
            Ev::TB(_) => Ev::TB(m),
            Ev::TE(_) => Ev::TE(m),
            e => e,
        }
    }
}

#[derive(Serialize, Deserialize, Clone, PartialEq, Debug)]
pub struct Call {
    pub now: u64,
    pub ev: Vec<Ev>,
}

/// A returned action in a form independent of the time type.
#[derive(Clone, PartialEq, Eq, Debug, Serialize, Deserialize)]
pub struct ActionRec {
    /// 0 cancel, 1 padding, 2 blocking, 3 timer
    pub kind: u8,
    pub machine: usize,
    pub bypass: bool,
    pub replace: bool,
    /// 0 action, 1 internal, 2 all, 9 n/a
    pub timer: u8,
    pub timeout_ns: u128,
    pub duration_ns: u128,
}

impl ActionRec {
    pub fn from<T: maybenot::time::Instant<Duration = std::time::Duration>>(
        a: &TriggerAction<T>,
    ) -> ActionRec {
        match a {
            TriggerAction::Cancel { machine, timer } => ActionRec {
                kind: 0,
                machine: machine.into_raw(),
                bypass: false,
                replace: false,
                timer: match timer {
                    Timer::Action => 0,
                    Timer::Internal => 1,
                    Timer::All => 2,
                },
                timeout_ns: 0,
                duration_ns: 0,
            },
            TriggerAction::SendPadding {
                timeout,
                bypass,
                replace,
                machine,
            } => ActionRec {
                kind: 1,
                machine: machine.into_raw(),
                bypass: *bypass,
                replace: *replace,
                timer: 9,
                timeout_ns: timeout.as_nanos(),
                duration_ns: 0,
            },
            TriggerAction::BlockOutgoing {
                timeout,
                duration,
                bypass,
                replace,
                machine,
            } => ActionRec {
                kind: 2,
                machine: machine.into_raw(),
                bypass: *bypass,
                replace: *replace,
                timer: 9,
                timeout_ns: timeout.as_nanos(),
                duration_ns: duration.as_nanos(),
            },
            TriggerAction::UpdateTimer {
                duration,
                replace,
                machine,
            } => ActionRec {
                kind: 3,
                machine: machine.into_raw(),
                bypass: false,
                replace: *replace,
                timer: 9,
                timeout_ns: 0,
                duration_ns: duration.as_nanos(),
            },
        }
    }
    pub fn short(&self) -> String {
        match self.kind {
            0 => format!("Cancel(m{} t{})", self.machine, self.timer),
            1 => format!(
                "Pad(m{} b{} r{} to{}ns)",
                self.machine, self.bypass as u8, self.replace as u8, self.timeout_ns
            ),
            2 => format!(
                "Block(m{} b{} r{} to{}ns dur{}ns)",
                self.machine,
                self.bypass as u8,
                self.replace as u8,
                self.timeout_ns,
                self.duration_ns
            ),
            _ => format!(
                "Timer(m{} r{} dur{}ns)",
                self.machine, self.replace as u8, self.duration_ns
            ),
        }
    }
}

pub fn acts_short(a: &[ActionRec]) -> String {
    format!(
        "[{}]",
        a.iter().map(|x| x.short()).collect::<Vec<_>>().join(", ")
    )
}

/// The framework under test on one of the two clock types the crate ships an
/// `Instant` implementation path for: the harness's virtual clock (trait
/// implemented here) or `std::time::Instant` (trait implemented in the crate's
/// time.rs, the one every real integration uses). A std instant is
/// `base + virtual nanoseconds` with a process-wide arbitrary base: the framework
/// only ever looks at differences, so runs stay reproducible.
#[derive(Clone)]
pub enum Fw {
    V(Framework<Vec<Machine>, SimRng, VInstant>),
    S(Framework<Vec<Machine>, SimRng, std::time::Instant>),
}

pub fn std_at(ns: u64) -> std::time::Instant {
    static BASE: std::sync::OnceLock<std::time::Instant> = std::sync::OnceLock::new();
    *BASE.get_or_init(std::time::Instant::now) + std::time::Duration::from_nanos(ns)
}

impl Fw {
    pub fn trigger(&mut self, evs: &[TriggerEvent], now: u64) -> Vec<ActionRec> {
        match self {
            Fw::V(f) => f.trigger_events(evs, VInstant(now)).map(ActionRec::from).collect(),
            Fw::S(f) => f.trigger_events(evs, std_at(now)).map(ActionRec::from).collect(),
        }
    }
    pub fn verif_snapshot(&self) -> Snapshot {
        match self {
            Fw::V(f) => f.verif_snapshot(),
            Fw::S(f) => f.verif_snapshot(),
        }
    }
}

#[derive(Clone, Debug)]
pub struct FwCase {
    pub machines: Vec<Machine>,
    pub pf: f64,
    pub bf: f64,
    pub start: u64,
    pub rng: RngSpec,
    pub calls: Vec<Call>,
    /// property specific extras (e.g. C10: index of the target machine)
    pub extra: Value,
}

impl FwCase {
    pub fn to_json(&self) -> Value {
        json!({
            "machines": mach::enc_all(&self.machines),
            "machines_readable": self.machines.iter().map(mach::describe).collect::<Vec<_>>(),
            "max_padding_frac_bits": self.pf.to_bits(),
            "max_blocking_frac_bits": self.bf.to_bits(),
            "fracs_readable": [self.pf, self.bf],
            "start_ns": self.start,
            "rng": self.rng,
            "calls": self.calls,
            "extra": self.extra,
        })
    }
    pub fn from_json(v: &Value) -> Option<FwCase> {
        Some(FwCase {
            machines: mach::dec_all(&v["machines"])?,
            pf: f64::from_bits(v["max_padding_frac_bits"].as_u64()?),
            bf: f64::from_bits(v["max_blocking_frac_bits"].as_u64()?),
            start: v["start_ns"].as_u64()?,
            rng: serde_json::from_value(v["rng"].clone()).ok()?,
            calls: serde_json::from_value(v["calls"].clone()).ok()?,
            extra: v["extra"].clone(),
        })
    }
    pub fn sample_json(&self) -> Value {
        // shortened form for evidence
        json!({
            "machines": self.machines.iter().map(mach::describe).collect::<Vec<_>>(),
            "fracs": [self.pf, self.bf],
            "start_ns": self.start,
            "rng": match &self.rng { RngSpec::ConstPerCall(w) => json!({"ConstPerCall_words": w.len()}), r => json!(r) },
            "n_calls": self.calls.len(),
            "first_calls": self.calls.iter().take(12).collect::<Vec<_>>(),
        })
    }
    /// true: this case runs the framework on `std::time::Instant`
    pub fn std_clock(&self) -> bool {
        self.extra["std_clock"].as_bool().unwrap_or(false)
    }
    pub fn build(&self) -> Result<Fw, String> {
        self.build_with(self.std_clock())
    }
    pub fn build_with(&self, std_clock: bool) -> Result<Fw, String> {
        let ms = self.machines.clone();
        let rng = SimRng::new(&self.rng);
        set_call_word(self.init_word());
        let r = if std_clock {
            catch_sut(|| Framework::new(ms, self.pf, self.bf, std_at(self.start), rng).map(Fw::S))
        } else {
            catch_sut(|| Framework::new(ms, self.pf, self.bf, VInstant(self.start), rng).map(Fw::V))
        };
        match r {
            Ok(Ok(f)) => Ok(f),
            Ok(Err(e)) => Err(format!("Framework::new returned Err: {e}")),
            Err(p) => Err(format!("Framework::new panicked: {p}")),
        }
    }
    /// the word in effect while the framework is constructed (ConstPerCall)
    pub fn init_word(&self) -> u64 {
        match &self.rng {
            RngSpec::ConstPerCall(w) if !w.is_empty() => w[w.len() - 1],
            _ => 0,
        }
    }
    pub fn call_word(&self, k: usize) -> u64 {
        match &self.rng {
            RngSpec::ConstPerCall(w) if !w.is_empty() => w[k % w.len()],
            _ => 0,
        }
    }
}

pub struct CallOut {
    pub actions: Vec<ActionRec>,
    pub log: Vec<Rec>,
    pub snap: Snapshot,
    pub words: u64,
}

/// Make one call on the real framework, capturing actions, H1 log and snapshot.
pub fn do_call(fw: &mut Fw, case: &FwCase, k: usize, call: &Call) -> Result<CallOut, String> {
    let evs: Vec<TriggerEvent> = call.ev.iter().map(|e| e.to_trigger()).collect();
    set_call_word(case.call_word(k));
    let budget = 2000 * (evs.len() as u64 + 1) * (case.machines.len() as u64 + 1);
    rng_reset(budget);
    maybenot::verif::clear();
    let r = catch_sut(|| fw.trigger(&evs, call.now));
    let words = rng_words();
    rng_reset(u64::MAX);
    match r {
        Ok(actions) => Ok(CallOut {
            actions,
            log: maybenot::verif::drain(),
            snap: fw.verif_snapshot(),
            words,
        }),
        Err(p) => {
            maybenot::verif::clear();
            Err(p)
        }
    }
}

/// Per-property oracle attached to a replayed history.
pub trait Monitor {
    fn after_call(
        &mut self,
        case: &FwCase,
        k: usize,
        call: &Call,
        out: &CallOut,
        stats: &mut Stats,
    ) -> Option<(String, String)>;
    /// called once after construction with the initial snapshot
    fn start(&mut self, _case: &FwCase, _snap: &Snapshot) {}
    /// called once at the end; returns whether the run was non-trivial
    fn nontrivial(&self) -> bool;
}

pub struct RunSummary {
    pub violations: Vec<Violation>,
    pub shape: u64,
    pub sut_panicked: Option<String>,
}

/// Replay an open-loop case against a fresh framework with a monitor attached.
/// `panic_is_violation`: whether a panic of the framework is a violation of the
/// property being checked (C01) or merely aborts the case.
pub fn run_case(
    case: &FwCase,
    mon: &mut dyn Monitor,
    stats: &mut Stats,
    panic_is_violation: bool,
) -> RunSummary {
    maybenot::verif::enable(true);
    let mut violations = vec![];
    let mut shape = Fnv::default();
    let mut fw = match case.build() {
        Ok(f) => f,
        Err(e) => {
            if panic_is_violation {
                violations.push(Violation::new(
                    "new-failed",
                    e.clone(),
                    Some(case.to_json()),
                ));
            } else {
                stats.inc("aborted_in_sut");
            }
            return RunSummary {
                violations,
                shape: 0,
                sut_panicked: Some(e),
            };
        }
    };
    mon.start(case, &fw.verif_snapshot());
    let mut sut_panicked = None;
    let mut prev_now = case.start;
    for (k, call) in case.calls.iter().enumerate() {
        match do_call(&mut fw, case, k, call) {
            Ok(out) => {
                stats.inc("calls");
                stats.add("events", call.ev.len() as u64);
                stats.add("actions", out.actions.len() as u64);
                if call.now > prev_now {
                    stats.add(
                        "sim_time_us",
                        (call.now - prev_now).min(86_400_000_000_000) / 1000,
                    );
                }
                prev_now = call.now;
                for e in &call.ev {
                    shape.u64(e.kind());
                }
                shape.u64(0xff);
                for a in &out.actions {
                    shape.u64(a.kind as u64 + 100);
                }
                abstract_state(&out.snap, stats);
                if let Some((class, detail)) = mon.after_call(case, k, call, &out, stats) {
                    let mut c = case.clone();
                    c.calls.truncate(k + 1);
                    violations.push(Violation::new(
                        &class,
                        format!("call {k}: {detail}"),
                        Some(c.to_json()),
                    ));
                    break;
                }
            }
            Err(p) => {
                if panic_is_violation {
                    let mut c = case.clone();
                    c.calls.truncate(k + 1);
                    violations.push(Violation::new(
                        &panic_class(&p),
                        format!("call {k}: trigger_events panicked: {p}"),
                        Some(c.to_json()),
                    ));
                } else {
                    stats.inc("aborted_in_sut");
                }
                sut_panicked = Some(p);
                break;
            }
        }
    }
    maybenot::verif::enable(false);
    let sh = shape.0;
    if mon.nontrivial() && violations.is_empty() && sut_panicked.is_none() {
        stats.shapes.insert(sh);
        stats.inc("nontrivial_runs");
    }
    RunSummary {
        violations,
        shape: sh,
        sut_panicked,
    }
}

fn abstract_state(s: &Snapshot, stats: &mut Stats) {
    let mut h = Fnv::default();
    for m in &s.machines {
        h.u64(m.current_state as u64);
        h.u64(match m.state_limit {
            0 => 0,
            1 => 1,
            u64::MAX => 3,
            _ => 2,
        });
        for c in [m.counter_a, m.counter_b] {
            h.u64(match c {
                0 => 0,
                1 => 1,
                x if x >= 1 << 63 => 3,
                _ => 2,
            });
        }
    }
    h.u64(s.blocking_active as u64);
    h.u64(s.signal_pending as u64);
    stats.states.insert(h.0);
}

// ---------------------------------------------------------------------------
// closed-loop history generation

#[derive(Clone)]
pub struct HistCfg {
    pub max_calls: usize,
    /// every call reports exactly one event
    pub single_event: bool,
    /// fraction of steps that inject an open-loop event from the full alphabet
    pub p_open: f64,
    /// per-kind fault probabilities (per flush)
    pub p_batch: f64,
    pub p_drop: f64,
    pub p_dup: f64,
    pub p_reorder: f64,
    pub p_stale: f64,
    pub p_spurious: f64,
    pub p_clock_stall: f64,
    pub p_clock_back: f64,
    pub p_clock_jump: f64,
    pub p_empty: f64,
    /// virtual time unit of the workload in ns
    pub unit_ns: u64,
    /// app packets to send / receive
    pub app_packets: usize,
    /// weights for open-loop events (indexed by Ev::kind)
    pub open_w: [u32; 10],
}

impl HistCfg {
    pub fn swarm(g: &mut Gen, max_calls: usize) -> HistCfg {
        // swarm style: each run enables a random subset of fault kinds
        let mut p = |on: f64, hi: f64| if g.chance(on) { g.f01() * hi } else { 0.0 };
        HistCfg {
            max_calls,
            single_event: false,
            p_open: p(0.6, 0.5),
            p_batch: p(0.5, 0.6),
            p_drop: p(0.4, 0.2),
            p_dup: p(0.4, 0.2),
            p_reorder: p(0.4, 0.3),
            p_stale: p(0.5, 0.2),
            p_spurious: p(0.5, 0.2),
            p_clock_stall: p(0.4, 0.3),
            p_clock_back: p(0.4, 0.2),
            p_clock_jump: p(0.3, 0.1),
            p_empty: p(0.3, 0.1),
            unit_ns: *g.pick(&[1, 1000, 1_000_000, 1_000_000_000]),
            app_packets: g.usize(60),
            open_w: [1; 10],
        }
    }
    pub fn fault_free(max_calls: usize) -> HistCfg {
        HistCfg {
            max_calls,
            single_event: false,
            p_open: 0.0,
            p_batch: 0.0,
            p_drop: 0.0,
            p_dup: 0.0,
            p_reorder: 0.0,
            p_stale: 0.0,
            p_spurious: 0.0,
            p_clock_stall: 0.0,
            p_clock_back: 0.0,
            p_clock_jump: 0.0,
            p_empty: 0.0,
            unit_ns: 1000,
            app_packets: 40,
            open_w: [1; 10],
        }
    }
}

struct Integrator {
    m: usize,
    action_timer: Vec<Option<(u64, ActionRec)>>,
    internal_timer: Vec<Option<u64>>,
    blocking: Option<(u64, bool)>,
    egress_blocked: u64,
}

impl Integrator {
    fn apply_actions(&mut self, now: u64, acts: &[ActionRec], immediate: &mut Vec<Ev>) {
        for a in acts {
            if a.machine >= self.m {
                continue; // C04 would flag it; the integrator just survives
            }
            let mi = a.machine;
            match a.kind {
                0 => {
                    if a.timer == 0 || a.timer == 2 {
                        self.action_timer[mi] = None;
                    }
                    if a.timer == 1 || a.timer == 2 {
                        self.internal_timer[mi] = None;
                    }
                }
                1 | 2 => {
                    let due = now.saturating_add(a.timeout_ns.min(u64::MAX as u128) as u64);
                    self.action_timer[mi] = Some((due, a.clone()));
                }
                _ => {
                    let due = now.saturating_add(a.duration_ns.min(u64::MAX as u128) as u64);
                    let set = a.replace
                        || match self.internal_timer[mi] {
                            None => true,
                            Some(cur) => due > cur,
                        };
                    if set {
                        self.internal_timer[mi] = Some(due);
                    }
                    immediate.push(Ev::TB(mi as u64));
                }
            }
        }
    }
    fn next_timer(&self) -> Option<u64> {
        let mut t: Option<u64> = None;
        let mut upd = |x: u64| {
            t = Some(t.map_or(x, |y: u64| y.min(x)));
        };
        for a in self.action_timer.iter().flatten() {
            upd(a.0);
        }
        for i in self.internal_timer.iter().flatten() {
            upd(*i);
        }
        if let Some((u, _)) = self.blocking {
            upd(u);
        }
        t
    }
    /// fire everything due at `t`, in a seeded order
    fn fire(&mut self, t: u64, g: &mut Gen, out: &mut Vec<Ev>) {
        // blocking end first or last, seeded
        let mut todo: Vec<u8> = vec![0, 1, 2];
        if g.bool() {
            todo.reverse();
        }
        for what in todo {
            match what {
                0 => {
                    if let Some((u, _)) = self.blocking {
                        if u <= t {
                            self.blocking = None;
                            out.push(Ev::BE);
                            for _ in 0..self.egress_blocked.min(4) {
                                out.push(Ev::TS);
                            }
                            self.egress_blocked = 0;
                        }
                    }
                }
                1 => {
                    for mi in 0..self.m {
                        if let Some((due, a)) = self.action_timer[mi].clone() {
                            if due <= t {
                                self.action_timer[mi] = None;
                                if a.kind == 1 {
                                    out.push(Ev::PS(mi as u64));
                                    let blocked = match self.blocking {
                                        Some((_, bypassable)) => !(a.bypass && bypassable),
                                        None => false,
                                    };
                                    if !blocked {
                                        out.push(Ev::TS);
                                        if a.replace && self.egress_blocked > 0 {
                                            self.egress_blocked -= 1;
                                        }
                                    }
                                } else {
                                    let until = t
                                        .saturating_add(a.duration_ns.min(u64::MAX as u128) as u64);
                                    match self.blocking {
                                        None => self.blocking = Some((until, a.bypass)),
                                        Some((cur, _)) => {
                                            if a.replace || until > cur {
                                                self.blocking = Some((until, a.bypass));
                                            }
                                        }
                                    }
                                    out.push(Ev::BB(mi as u64));
                                }
                            }
                        }
                    }
                }
                _ => {
                    for mi in 0..self.m {
                        if let Some(due) = self.internal_timer[mi] {
                            if due <= t {
                                self.internal_timer[mi] = None;
                                out.push(Ev::TE(mi as u64));
                            }
                        }
                    }
                }
            }
        }
    }
}

fn open_event(g: &mut Gen, cfg: &HistCfg, m: usize) -> Ev {
    let tot: u32 = cfg.open_w.iter().sum();
    let mut r = g.below(tot.max(1) as u64) as u32;
    let mut kind = 0;
    for (i, w) in cfg.open_w.iter().enumerate() {
        if r < *w {
            kind = i;
            break;
        }
        r -= *w;
    }
    let id = if m > 0 && g.chance(0.75) {
        g.below(m as u64)
    } else {
        stale_id(g, m)
    };
    match kind {
        0 => Ev::NR,
        1 => Ev::PR,
        2 => Ev::TR,
        3 => Ev::NS,
        4 => Ev::PS(id),
        5 => Ev::TS,
        6 => Ev::BB(id),
        7 => Ev::BE,
        8 => Ev::TB(id),
        _ => Ev::TE(id),
    }
}

fn stale_id(g: &mut Gen, m: usize) -> u64 {
    match g.below(5) {
        0 => m as u64,
        1 => (2 * m) as u64 + g.below(3),
        2 => usize::MAX as u64,
        3 => u32::MAX as u64,
        _ => m as u64 + g.below(1000),
    }
}

/// Generate a history by closing the loop around the real framework. If the
/// framework panics the history ends with the panicking call.
pub fn gen_history(
    g: &mut Gen,
    machines: &[Machine],
    pf: f64,
    bf: f64,
    start: u64,
    rng: &RngSpec,
    cfg: &HistCfg,
    stats: &mut Stats,
) -> Vec<Call> {
    let case0 = FwCase {
        machines: machines.to_vec(),
        pf,
        bf,
        start,
        rng: rng.clone(),
        calls: vec![],
        extra: Value::Null,
    };
    let mut calls: Vec<Call> = vec![];
    let Ok(mut fw) = case0.build() else {
        // the replay will report it
        return vec![Call {
            now: start,
            ev: vec![],
        }];
    };
    maybenot::verif::enable(false);
    let m = machines.len();
    let mut it = Integrator {
        m,
        action_timer: vec![None; m],
        internal_timer: vec![None; m],
        blocking: None,
        egress_blocked: 0,
    };
    let mut true_now = start;
    let mut reported = start;
    let mut true_at_last_call = start;
    let mut pending: Vec<Ev> = vec![];
    let mut app_left = cfg.app_packets;
    let mut next_app = start.saturating_add(g.below(4) * cfg.unit_ns);
    let mut steps = 0usize;

    while calls.len() < cfg.max_calls && steps < cfg.max_calls * 4 {
        steps += 1;
        // ---- what happens next in the world?
        let mut evs: Vec<Ev> = vec![];
        let timer = it.next_timer();
        let app = if app_left > 0 { Some(next_app) } else { None };
        let next_t = match (timer, app) {
            (Some(a), Some(b)) => Some(a.min(b)),
            (a, b) => a.or(b),
        };
        let open_now = g.chance(cfg.p_open) || next_t.is_none();
        if open_now {
            // an event nobody scheduled, some time later (or at the same instant)
            let dt = match g.below(5) {
                0 => 0,
                1 => 1,
                2 => cfg.unit_ns,
                3 => cfg.unit_ns.saturating_mul(g.range(1, 100)),
                _ => g.below(cfg.unit_ns.saturating_mul(10).max(1)),
            };
            let t = true_now.saturating_add(dt);
            // do not jump over timers: fire what is due first
            if let Some(tt) = timer {
                if tt <= t {
                    true_now = tt.max(true_now);
                    it.fire(true_now, g, &mut evs);
                } else {
                    true_now = t;
                }
            } else {
                true_now = t;
            }
            evs.push(open_event(g, cfg, m));
            stats.fault("open_loop_event");
        } else {
            let t = next_t.unwrap().max(true_now);
            true_now = t;
            if app == Some(next_t.unwrap()) && app_left > 0 {
                app_left -= 1;
                next_app = true_now.saturating_add(match g.below(4) {
                    0 => 0,
                    1 => cfg.unit_ns,
                    _ => g.below(cfg.unit_ns.saturating_mul(20).max(1)),
                });
                if g.chance(0.55) {
                    evs.push(Ev::NS);
                    if it.blocking.is_some() {
                        it.egress_blocked += 1;
                    } else {
                        evs.push(Ev::TS);
                    }
                } else {
                    evs.push(Ev::TR);
                    evs.push(if g.chance(0.7) { Ev::NR } else { Ev::PR });
                }
            }
            it.fire(true_now, g, &mut evs);
        }
        pending.extend(evs);

        // ---- report channel
        if !pending.is_empty() && g.chance(cfg.p_batch) && pending.len() < 64 {
            stats.fault("batch_hold");
            continue; // hold the reports, the world moves on
        }
        let mut batch = std::mem::take(&mut pending);
        if g.chance(cfg.p_drop) && !batch.is_empty() {
            let i = g.usize(batch.len());
            batch.remove(i);
            stats.fault("drop");
        }
        if g.chance(cfg.p_dup) && !batch.is_empty() {
            let i = g.usize(batch.len());
            let e = batch[i];
            batch.insert(i, e);
            stats.fault("dup");
        }
        if g.chance(cfg.p_reorder) && batch.len() >= 2 {
            let i = g.usize(batch.len() - 1);
            batch.swap(i, i + 1);
            stats.fault("reorder");
        }
        if g.chance(cfg.p_stale) {
            if let Some(i) = (0..batch.len()).find(|i| batch[*i].id().is_some()) {
                batch[i] = batch[i].with_id(stale_id(g, m));
                stats.fault("stale_id");
            }
        }
        if g.chance(cfg.p_spurious) {
            let e = match g.below(5) {
                0 => Ev::BE,
                1 => Ev::BB(g.below(m.max(1) as u64)),
                2 => Ev::TE(g.below(m.max(1) as u64)),
                3 => Ev::PS(g.below(m.max(1) as u64)),
                _ => Ev::TB(g.below(m.max(1) as u64)),
            };
            let i = g.usize(batch.len() + 1);
            batch.insert(i, e);
            stats.fault("spurious");
        }
        if batch.len() > 1 {
            stats.fault("batch");
        }
        // ---- clock: the reported clock advances like the true one since the
        // last call, unless a clock fault is injected
        let mut now = reported.saturating_add(true_now.saturating_sub(true_at_last_call));
        true_at_last_call = true_now;
        if g.chance(cfg.p_clock_stall) {
            now = reported;
            stats.fault("clock_stall");
        } else if g.chance(cfg.p_clock_back) {
            let back = match g.below(4) {
                0 => 1,
                1 => cfg.unit_ns,
                2 => g.below(cfg.unit_ns.saturating_mul(1000).max(1)),
                _ => u64::MAX,
            };
            now = reported.saturating_sub(back);
            stats.fault("clock_back");
        } else if g.chance(cfg.p_clock_jump) {
            let fwd = match g.below(4) {
                0 => 3_600_000_000_000,
                1 => 86_400_000_000_000 * 400,
                2 => u64::MAX / 2,
                _ => u64::MAX,
            };
            now = reported.saturating_add(fwd);
            stats.fault("clock_jump");
        }
        reported = now;

        let mut to_send: Vec<Vec<Ev>> = vec![];
        if g.chance(cfg.p_empty) {
            to_send.push(vec![]);
            stats.fault("empty_call");
        }
        if cfg.single_event {
            for e in batch {
                to_send.push(vec![e]);
            }
        } else if !batch.is_empty() {
            to_send.push(batch);
        }
        for evs in to_send {
            if calls.len() >= cfg.max_calls {
                break;
            }
            let call = Call { now, ev: evs };
            let k = calls.len();
            calls.push(call.clone());
            let case_ref = &case0;
            match do_call(&mut fw, case_ref, k, &call) {
                Ok(out) => {
                    let mut imm = vec![];
                    // the integrator acts at its own (true) time
                    it.apply_actions(true_now, &out.actions, &mut imm);
                    pending.extend(imm);
                }
                Err(_) => return calls, // replay will find and classify it
            }
        }
    }
    calls
}

pub fn gen_rng_spec(g: &mut Gen, p_script: f64, stats: &mut Stats) -> RngSpec {
    if g.chance(p_script) {
        stats.fault("rng_extreme");
        let n = 1 + g.usize(48);
        let style = g.below(6);
        let prefix: Vec<u64> = (0..n)
            .map(|i| match style {
                0 => 0,
                1 => u64::MAX,
                2 => {
                    if i % 2 == 0 {
                        0
                    } else {
                        u64::MAX
                    }
                }
                3 => 0x1ff,
                4 => 1 << 63,
                _ => *g.pick(&[
                    0,
                    u64::MAX,
                    0xffff_ffff_ff00_0000,
                    1,
                    0x8000_0000_0000_0000,
                    0x1ff,
                ]),
            })
            .collect();
        RngSpec::Script {
            prefix,
            seed: g.u64(),
        }
    } else {
        RngSpec::Free(g.u64())
    }
}

// ---------------------------------------------------------------------------
// shrinking of FwCase (shared by all engine-A properties)

pub fn shrink_case(v: &Value) -> Vec<Value> {
    let Some(c) = FwCase::from_json(v) else {
        return vec![];
    };
    let mut out: Vec<FwCase> = vec![];
    let n = c.calls.len();
    // drop chunks of calls (never the last one: it is where the violation is)
    if n > 1 {
        let mut chunk = (n - 1) / 2;
        while chunk >= 1 {
            let mut i = 0;
            while i + chunk <= n - 1 {
                let mut d = c.clone();
                d.calls.drain(i..i + chunk);
                out.push(d);
                i += chunk;
            }
            if chunk == 1 {
                break;
            }
            chunk /= 2;
        }
    }
    // drop single events inside calls
    for (i, call) in c.calls.iter().enumerate() {
        if call.ev.len() > 1 || (call.ev.len() == 1 && i + 1 != n) {
            for j in 0..call.ev.len() {
                let mut d = c.clone();
                d.calls[i].ev.remove(j);
                out.push(d);
            }
        }
    }
    // drop machines (re-index ids; ids of the dropped machine become unknown)
    if c.machines.len() > 1 || (c.machines.len() == 1 && c.extra.is_null()) {
        for mi in (0..c.machines.len()).rev() {
            if let Some(t) = c.extra.get("target").and_then(|t| t.as_u64()) {
                if t as usize == mi {
                    continue;
                }
            }
            let mut d = c.clone();
            d.machines.remove(mi);
            let newm = d.machines.len() as u64;
            for call in d.calls.iter_mut() {
                for e in call.ev.iter_mut() {
                    if let Some(id) = e.id() {
                        if id == mi as u64 {
                            *e = e.with_id(newm + 7);
                        } else if id > mi as u64 && id < c.machines.len() as u64 {
                            *e = e.with_id(id - 1);
                        }
                    }
                }
            }
            if let Some(t) = d.extra.get("target").and_then(|t| t.as_u64()) {
                if t as usize > mi {
                    d.extra["target"] = json!(t - 1);
                }
            }
            out.push(d);
        }
    }
    // simplify machines
    for mi in 0..c.machines.len() {
        for m2 in mach::shrink_machine(&c.machines[mi]) {
            let mut d = c.clone();
            d.machines[mi] = m2;
            out.push(d);
        }
    }
    // fractions
    if c.pf != 0.0 {
        let mut d = c.clone();
        d.pf = 0.0;
        out.push(d);
    }
    if c.bf != 0.0 {
        let mut d = c.clone();
        d.bf = 0.0;
        out.push(d);
    }
    // clock: make monotone, then compress
    let mut mono = c.clone();
    let mut prev = mono.start;
    let mut changed = false;
    for call in mono.calls.iter_mut() {
        if call.now < prev {
            call.now = prev;
            changed = true;
        }
        prev = call.now;
    }
    if changed {
        out.push(mono);
    }
    if c.start != 0 {
        let mut d = c.clone();
        let s = d.start;
        d.start = 0;
        for call in d.calls.iter_mut() {
            call.now = call.now.saturating_sub(s);
        }
        out.push(d);
    }
    // rng: shorten script
    match &c.rng {
        RngSpec::Script { prefix, seed } if !prefix.is_empty() => {
            let mut d = c.clone();
            d.rng = RngSpec::Free(*seed);
            out.push(d);
            let mut d = c.clone();
            d.rng = RngSpec::Script {
                prefix: prefix[..prefix.len() / 2].to_vec(),
                seed: *seed,
            };
            out.push(d);
        }
        _ => {}
    }
    out.into_iter().map(|c| c.to_json()).collect()
}

pub fn dur_ns(d: Duration) -> u128 {
    d.as_nanos()
}

//! Lock-step refinement against the reference semantics, twin/clone determinism,
//! and the properties built on them: C05, C07, C08, C09.

use crate::common::*;
use crate::fwsim::*;
use crate::mach::{self, Family, MachCfg};
use crate::props_fw::*;
use crate::refmodel::RefModel;
use crate::sup::{EngineInfo, Stats, Tier};
use maybenot::action::Action;
use maybenot::constants::STATE_END;
use maybenot::event::Event;
use maybenot::verif::Rec;
use maybenot::Machine;
use serde_json::json;

// ---------------------------------------------------------------------------
// reference comparison

pub struct RefMon {
    model: RefModel,
    pub compared: u64,
    pub state_changes: u64,
    pub limit_decs: u64,
    pub actions: u64,
    stopped: bool,
}

fn has_limit(a: &Option<Action>) -> bool {
    match a {
        Some(Action::SendPadding { limit, .. })
        | Some(Action::BlockOutgoing { limit, .. })
        | Some(Action::UpdateTimer { limit, .. }) => limit.is_some(),
        _ => false,
    }
}

impl RefMon {
    pub fn new(case: &FwCase) -> RefMon {
        set_call_word(case.init_word());
        let rng = SimRng::new(&case.rng);
        RefMon {
            model: RefModel::new(&case.machines, case.pf, case.bf, case.start, rng),
            compared: 0,
            state_changes: 0,
            limit_decs: 0,
            actions: 0,
            stopped: false,
        }
    }
}

impl Monitor for RefMon {
    fn after_call(
        &mut self,
        case: &FwCase,
        k: usize,
        call: &Call,
        out: &CallOut,
        stats: &mut Stats,
    ) -> Option<(String, String)> {
        if self.stopped {
            return None;
        }
        set_call_word(case.call_word(k));
        let expect = self.model.trigger(&call.ev, call.now);
        if self.model.ambiguous {
            // a fraction sat within rounding distance of its limit: either
            // answer is acceptable, so the comparison ends here
            self.stopped = true;
            stats.inc("ambiguous_skipped");
            return None;
        }
        self.compared += 1;
        self.actions += out.actions.len() as u64;
        for r in &out.log {
            match r {
                Rec::Entered { .. } => self.state_changes += 1,
                Rec::LimitDec { .. } => self.limit_decs += 1,
                _ => {}
            }
        }
        if expect != out.actions {
            return Some((
                "ref-actions".into(),
                format!(
                    "events {:?} at {}: framework returned {} but the stated semantics prescribe {}",
                    call.ev,
                    call.now,
                    acts_short(&out.actions),
                    acts_short(&expect)
                ),
            ));
        }
        for (mi, (got, want)) in out
            .snap
            .machines
            .iter()
            .zip(self.model.rt.iter())
            .enumerate()
        {
            if got.current_state != want.current {
                return Some((
                    "ref-state".into(),
                    format!(
                        "machine {mi} is in state {} but the stated semantics put it in {}",
                        got.current_state, want.current
                    ),
                ));
            }
            if (got.counter_a, got.counter_b) != (want.ca, want.cb) {
                return Some((
                    "ref-counters".into(),
                    format!(
                        "machine {mi} counters are ({}, {}), stated semantics give ({}, {})",
                        got.counter_a, got.counter_b, want.ca, want.cb
                    ),
                ));
            }
            if got.current_state != STATE_END
                && has_limit(&case.machines[mi].states[got.current_state].action)
                && got.state_limit != want.limit
            {
                return Some((
                    "ref-limit".into(),
                    format!(
                        "machine {mi} has remaining limit {} in state {}, stated semantics give {}",
                        got.state_limit, got.current_state, want.limit
                    ),
                ));
            }
        }
        None
    }
    fn nontrivial(&self) -> bool {
        self.compared > 0 && self.state_changes > 0 && self.actions > 0
    }
}

// ---------------------------------------------------------------------------
// twin / clone determinism

pub struct TwinMon {
    twin: Option<Fw>,
    clone: Option<Fw>,
    clone_at: usize,
    actions: u64,
}

impl TwinMon {
    pub fn new(case: &FwCase) -> TwinMon {
        TwinMon {
            // the twin runs on the other clock type: the clock implementation is
            // not an input, so the two must agree call by call
            twin: case.build_with(!case.std_clock()).ok(),
            clone: None,
            clone_at: case.extra["clone_at"].as_u64().unwrap_or(0) as usize,
            actions: 0,
        }
    }
}

impl Monitor for TwinMon {
    fn after_call(
        &mut self,
        case: &FwCase,
        k: usize,
        call: &Call,
        out: &CallOut,
        stats: &mut Stats,
    ) -> Option<(String, String)> {
        self.actions += out.actions.len() as u64;
        let Some(twin) = self.twin.as_mut() else {
            return None;
        };
        if k == self.clone_at {
            self.clone = Some(twin.clone());
            stats.fault("fork");
        }
        match do_call(twin, case, k, call) {
            Ok(o) => {
                if o.actions != out.actions {
                    return Some((
                        "twin-diverged".into(),
                        format!(
                            "two frameworks fed identically disagree: {} vs {}",
                            acts_short(&out.actions),
                            acts_short(&o.actions)
                        ),
                    ));
                }
            }
            Err(p) => {
                return Some(("twin-diverged".into(), format!("twin panicked: {p}")));
            }
        }
        if let Some(c) = self.clone.as_mut() {
            match do_call(c, case, k, call) {
                Ok(o) => {
                    if o.actions != out.actions {
                        return Some((
                            "clone-diverged".into(),
                            format!(
                                "a clone taken before call {} disagrees with its original: {} vs {}",
                                self.clone_at,
                                acts_short(&out.actions),
                                acts_short(&o.actions)
                            ),
                        ));
                    }
                }
                Err(p) => {
                    return Some(("clone-diverged".into(), format!("clone panicked: {p}")));
                }
            }
        }
        None
    }
    fn nontrivial(&self) -> bool {
        self.actions > 0
    }
}

// ---------------------------------------------------------------------------
// processing order: events in order, each against the machines in index order

pub struct OrderMon {
    ended: Vec<bool>,
    checked: u64,
}

impl OrderMon {
    pub fn new(case: &FwCase) -> OrderMon {
        OrderMon {
            ended: vec![false; case.machines.len()],
            checked: 0,
        }
    }
}

fn external_kind(e: Event) -> Option<u64> {
    Some(match e {
        Event::NormalRecv => 0,
        Event::PaddingRecv => 1,
        Event::TunnelRecv => 2,
        Event::NormalSent => 3,
        Event::PaddingSent => 4,
        Event::TunnelSent => 5,
        Event::BlockingBegin => 6,
        Event::BlockingEnd => 7,
        Event::TimerBegin => 10,
        Event::TimerEnd => 11,
        Event::LimitReached | Event::CounterZero | Event::Signal => return None,
    })
}
fn ev_external_kind(e: Ev) -> u64 {
    match e {
        Ev::NR => 0,
        Ev::PR => 1,
        Ev::TR => 2,
        Ev::NS => 3,
        Ev::PS(_) => 4,
        Ev::TS => 5,
        Ev::BB(_) => 6,
        Ev::BE => 7,
        Ev::TB(_) => 10,
        Ev::TE(_) => 11,
    }
}

impl Monitor for OrderMon {
    fn after_call(
        &mut self,
        case: &FwCase,
        _k: usize,
        call: &Call,
        out: &CallOut,
        stats: &mut Stats,
    ) -> Option<(String, String)> {
        let m = case.machines.len();
        // walk the log; (event index, next machine index) is the delivery expected next
        let mut ei = 0usize;
        let mut mi_next = 0usize;
        let mut advance = |ei: &mut usize, mi_next: &mut usize, ended: &Vec<bool>| -> Option<(usize, usize)> {
            // next expected (event index, machine) given who has ended so far
            loop {
                let e = *call.ev.get(*ei)?;
                match e {
                    Ev::PS(id) | Ev::TB(id) | Ev::TE(id) => {
                        // addressed to one machine only
                        let id = id as usize;
                        if *mi_next == 0 && id < m && !ended[id] {
                            *mi_next = usize::MAX; // consumed marker
                            return Some((*ei, id));
                        }
                        *ei += 1;
                        *mi_next = 0;
                    }
                    _ => {
                        if *mi_next == usize::MAX {
                            *ei += 1;
                            *mi_next = 0;
                            continue;
                        }
                        while *mi_next < m && ended[*mi_next] {
                            *mi_next += 1;
                        }
                        if *mi_next < m {
                            let r = (*ei, *mi_next);
                            *mi_next += 1;
                            return Some(r);
                        }
                        *ei += 1;
                        *mi_next = 0;
                    }
                }
            }
        };
        // machines that end during the signal round still count as live for the events
        // of this call (all of which precede the round)
        let mut ended_in_round: Vec<usize> = vec![];
        let mut in_round = false;
        // machine that was most recently handed an external event or a Signal
        let mut last_external: Option<usize> = None;
        for r in &out.log {
            match r {
                Rec::Ended { mi } if *mi < m => {
                    if in_round {
                        ended_in_round.push(*mi);
                    } else {
                        self.ended[*mi] = true;
                    }
                }
                Rec::SignalRoundStart => in_round = true,
                Rec::Deliver { mi, event } => {
                    let Some(kind) = external_kind(*event) else {
                        // internal LimitReached / CounterZero are handled immediately:
                        // no other machine may have been handed an external event since
                        // the one that raised them
                        if *event == Event::Signal {
                            last_external = Some(*mi);
                            continue;
                        }
                        if last_external != Some(*mi) {
                            return Some((
                                "processing-order".into(),
                                format!(
                                    "{event:?} was handled for machine {mi} only after machine {:?} had been handed its next event (internal events are handled immediately)",
                                    last_external
                                ),
                            ));
                        }
                        continue;
                    };
                    last_external = Some(*mi);
                    if in_round {
                        return Some((
                            "processing-order".into(),
                            format!("{event:?} delivered to machine {mi} after the signal round had begun"),
                        ));
                    }
                    self.checked += 1;
                    // addressed events leave the per-event cursor at the marker
                    if mi_next == usize::MAX {
                        ei += 1;
                        mi_next = 0;
                    }
                    let want = advance(&mut ei, &mut mi_next, &self.ended);
                    let ok = match want {
                        Some((j, wm)) => wm == *mi && ev_external_kind(call.ev[j]) == kind,
                        None => false,
                    };
                    if !ok {
                        return Some((
                            "processing-order".into(),
                            format!(
                                "{:?} was delivered to machine {mi} where the order 'events in order, each against the machines in index order' prescribes {}",
                                event,
                                match want {
                                    Some((j, wm)) => format!("{:?} to machine {wm}", call.ev[j]),
                                    None => "nothing more".to_string(),
                                }
                            ),
                        ));
                    }
                }
                _ => {}
            }
        }
        // nothing may be left undelivered (except to machines that have ended)
        if mi_next == usize::MAX {
            ei += 1;
            mi_next = 0;
        }
        if let Some((j, wm)) = advance(&mut ei, &mut mi_next, &self.ended) {
            return Some((
                "processing-order".into(),
                format!("{:?} was never delivered to live machine {wm}", call.ev[j]),
            ));
        }
        for mi in ended_in_round {
            self.ended[mi] = true;
        }
        stats.probe_if("order_checked_multi_machine_batch", m >= 2 && call.ev.len() >= 2);
        None
    }
    fn nontrivial(&self) -> bool {
        self.checked > 0
    }
}

pub struct Multi(pub Vec<Box<dyn Monitor>>);
impl Monitor for Multi {
    fn start(&mut self, case: &FwCase, snap: &maybenot::verif::Snapshot) {
        for m in self.0.iter_mut() {
            m.start(case, snap);
        }
    }
    fn after_call(
        &mut self,
        case: &FwCase,
        k: usize,
        call: &Call,
        out: &CallOut,
        stats: &mut Stats,
    ) -> Option<(String, String)> {
        for m in self.0.iter_mut() {
            if let Some(v) = m.after_call(case, k, call, out, stats) {
                return Some(v);
            }
        }
        None
    }
    fn nontrivial(&self) -> bool {
        self.0.iter().all(|m| m.nontrivial())
    }
}

// ---------------------------------------------------------------------------
// generation of reference-comparable cases

pub fn boundary_words(g: &mut Gen, n: usize) -> Vec<u64> {
    (0..n)
        .map(|_| match g.below(6) {
            0 => {
                // exactly on a k/64 threshold of the 23-bit draw, or next to it
                let k = g.below(65);
                let r23 = (k << 17).min((1 << 23) - 1);
                let r23 = match g.below(3) {
                    0 => r23,
                    1 => r23.saturating_sub(1),
                    _ => (r23 + 1).min((1 << 23) - 1),
                };
                (r23 << 41) | (g.u64() & ((1 << 41) - 1))
            }
            1 => 0,
            2 => u64::MAX,
            _ => g.u64(),
        })
        .collect()
}

pub struct RefGenCfg {
    pub max_machines: usize,
    pub max_calls: usize,
}

/// Det family under a fair stream (outcomes do not depend on the draws) or
/// dyadic family under const-per-call words.
pub fn gen_ref_case(
    g: &mut Gen,
    stats: &mut Stats,
    rc: &RefGenCfg,
    tweak: &dyn Fn(&mut Gen, &mut MachCfg, &mut HistCfg),
) -> FwCase {
    let det = g.chance(0.4);
    let fam = if det { Family::Det } else { Family::Dyadic };
    let deep = crate::props_fw::deep();
    let mut mc = MachCfg::new(fam);
    mc.max_states = 1 + g.usize(if deep { 8 } else { 4 });
    mc.p_trans = *g.pick(&[0.2, 0.35, 0.6, 0.9]);
    mc.p_counter = *g.pick(&[0.0, 0.3, 0.6]);
    mc.p_limit = *g.pick(&[0.0, 0.4, 0.8]);
    mc.p_signal = *g.pick(&[0.0, 0.05, 0.2]);
    let max_calls = if deep { rc.max_calls.max(600) } else { rc.max_calls };
    let calls = *g.pick(&[6, 20, 60, max_calls]);
    let mut hc = if g.chance(0.2) {
        HistCfg::fault_free(calls.min(max_calls))
    } else {
        HistCfg::swarm(g, calls.min(max_calls))
    };
    tweak(g, &mut mc, &mut hc);
    let nm = 1 + g.usize(rc.max_machines + if deep { 2 } else { 0 });
    let machines: Vec<Machine> = (0..nm).map(|_| mach::gen_machine(g, &mc)).collect();
    let fr = [0.0, 0.0, 0.25, 0.5, 1.0];
    let pf = *g.pick(&fr);
    let bf = *g.pick(&fr);
    let start = *g.pick(&[0u64, 1_000_000_000, 1 << 40]);
    let rng = if det {
        RngSpec::Free(g.u64())
    } else {
        RngSpec::ConstPerCall(boundary_words(g, 61))
    };
    let mut local = Stats::default();
    let calls = gen_history(g, &machines, pf, bf, start, &rng, &hc, &mut local);
    let kinds = count_fault_kinds(&local);
    stats.merge(&local);
    let clone_at = if calls.is_empty() {
        0
    } else {
        g.usize(calls.len())
    };
    FwCase {
        machines,
        pf,
        bf,
        start,
        rng,
        calls,
        extra: json!({ "fault_kinds": kinds, "clone_at": clone_at, "ref": true }),
    }
}

// ===========================================================================
// C05

pub struct C05;

impl FwProp for C05 {
    fn info(&self) -> EngineInfo {
        EngineInfo {
            property: "C05",
            engine: "fwsim",
            level: "exploration",
            rule: "two kinds of case: (a) wild machines under a fair seeded stream, run as original + identically built twin + mid-history clone, actions compared call by call; (b) det-family machines (fair stream) or dyadic-family machines (const-per-call words incl. words on/next to every k/64 threshold) run in lock-step with the executable reference semantics, comparing actions, current state, counters and remaining limit after every call; histories come from the closed loop with report-channel and clock faults, 1..4 machines, <=120 calls, plus a dense small scope (1..3 machines x 1..3 states x <=6 calls); (c) in every case the H1 log must show the external events of a call delivered in order, each to the live machines in index order (addressed events to their machine only); distinct = hash of per-call (event kinds, action kinds); non-trivial = at least one returned action (a) resp. a state change and a returned action while compared (b)".into(),
            assumptions: vec![
                "the reference semantics is hand-written from lib.rs / action.rs / counter.rs documentation and the property statements; where those are silent it mirrors the implementation".into(),
                "Dist::sample is a trusted leaf of the reference (attacked separately by C13)".into(),
                "comparison stops (counted as ambiguous_skipped) when a budget fraction lies within 1e-12 relative distance of its limit".into(),
                "bounded-exhaustive enumeration of the small scope is not attempted (that would be model checking); the scope is sampled densely".into(),
            ],
            real_components: FW_REAL.to_vec(),
            stubbed_components: {
                let mut v = FW_STUB.to_vec();
                v.push("reference semantics (refmodel.rs) as oracle");
                v
            },
            totality: false,
            cpu_limit_s: crate::sup::CASE_CPU_LIMIT_S,
            exhaustive: false,
        }
    }
    fn n_cases(&self, tier: Tier) -> u64 {
        match tier {
            Tier::Quick => 400_000,
            Tier::Thorough => 8_000_000,
        }
    }
    fn generate(&self, g: &mut Gen, _tier: Tier, stats: &mut Stats) -> FwCase {
        match g.below(10) {
            0..=2 => {
                let mut c = gen_wild_case(g, stats, 5, 150, &|_, _, _| {});
                let n = c.calls.len().max(1);
                c.extra["clone_at"] = json!(g.usize(n));
                c
            }
            3..=5 => {
                // dense small scope
                gen_ref_case(
                    g,
                    stats,
                    &RefGenCfg {
                        max_machines: 3,
                        max_calls: 6,
                    },
                    &|g, mc, hc| {
                        mc.max_states = 1 + g.usize(3);
                        hc.max_calls = 1 + g.usize(6);
                        hc.p_open = 0.7;
                    },
                )
            }
            _ => gen_ref_case(
                g,
                stats,
                &RefGenCfg {
                    max_machines: 4,
                    max_calls: 120,
                },
                &|_, _, _| {},
            ),
        }
    }
    fn monitor(&self, case: &FwCase) -> Box<dyn Monitor> {
        if case.extra["ref"].as_bool().unwrap_or(false) {
            Box::new(Multi(vec![
                Box::new(OrderMon::new(case)),
                Box::new(RefMon::new(case)),
                Box::new(TwinMon::new(case)),
            ]))
        } else {
            Box::new(Multi(vec![
                Box::new(OrderMon::new(case)),
                Box::new(TwinMon::new(case)),
            ]))
        }
    }
}

//! C02 (padding budgets) and C03 (blocking budgets): independent recount from
//! the reported events and call timestamps, checked whenever a single-event
//! call returns the corresponding action.

use crate::common::*;
use crate::fwsim::*;
use crate::mach::MachCfg;
use crate::props_fw::*;
use crate::sup::{EngineInfo, Stats, Tier};
use std::cmp::Ordering;
use std::time::Duration;

/// exact comparison of num/den with the f64 `f` (None if not computable in u128)
pub fn cmp_ratio_exact(num: u128, den: u128, f: f64) -> Option<Ordering> {
    if den == 0 || !f.is_finite() || f < 0.0 {
        return None;
    }
    let bits = f.to_bits();
    let exp = ((bits >> 52) & 0x7ff) as i32;
    let mant = bits & ((1u64 << 52) - 1);
    let (m, e) = if exp == 0 {
        (mant as u128, -1074)
    } else {
        ((mant | (1u64 << 52)) as u128, exp - 1075)
    };
    // num/den ? m * 2^e
    if e >= 0 {
        let rhs = m.checked_shl(e as u32)?.checked_mul(den)?;
        if (m << e) >> e != m {
            return None;
        }
        Some(num.cmp(&rhs))
    } else {
        let k = (-e) as u32;
        if k >= 127 || num.leading_zeros() <= k {
            return None;
        }
        let lhs = num << k;
        let rhs = m.checked_mul(den)?;
        Some(lhs.cmp(&rhs))
    }
}

/// "the fraction num/den is NOT below limit", declared only if both the exact
/// rational comparison and the floating-point quotient agree (so neither way of
/// computing the quotient can raise an alarm). 0/0 counts as below, x/0 as above.
pub fn not_below(num: u128, den: u128, fquot: f64, limit: f64) -> bool {
    if den == 0 {
        return num > 0;
    }
    let f_says = fquot >= limit;
    match cmp_ratio_exact(num, den, limit) {
        Some(o) => f_says && o != Ordering::Less,
        None => f_says,
    }
}

// ===========================================================================
// C02

pub struct C02;

struct C02Mon {
    p: Vec<u64>,
    n: u64,
    pall: u64,
    decisive: u64,
    checked: u64,
}

impl Monitor for C02Mon {
    fn after_call(
        &mut self,
        case: &FwCase,
        _k: usize,
        call: &Call,
        out: &CallOut,
        stats: &mut Stats,
    ) -> Option<(String, String)> {
        let m = case.machines.len() as u64;
        for e in &call.ev {
            match e {
                Ev::NS => self.n += 1,
                Ev::PS(id) => {
                    self.pall += 1;
                    if *id < m {
                        self.p[*id as usize] += 1;
                    }
                }
                _ => {}
            }
        }
        if call.ev.len() != 1 {
            return None; // the statement is about single-event calls
        }
        for a in out.actions.iter().filter(|a| a.kind == 1) {
            if a.machine as u64 >= m {
                continue;
            }
            self.checked += 1;
            let mach = &case.machines[a.machine];
            let pm = self.p[a.machine];
            if pm < mach.allowed_padding_packets {
                stats.probe("within_packet_budget");
                continue;
            }
            self.decisive += 1;
            let mt = (pm + self.n) as u128;
            let gt = (self.pall + self.n) as u128;
            stats.probe_if("zero_packet_edge", mt == 0 || gt == 0);
            stats.probe_if("machine_fraction_set", mach.max_padding_frac > 0.0);
            stats.probe_if("framework_fraction_set", case.pf > 0.0);
            stats.probe_if("foreign_padding_counted", self.pall > pm);
            if mach.max_padding_frac > 0.0
                && mt > 0
                && not_below(pm as u128, mt, pm as f64 / mt as f64, mach.max_padding_frac)
            {
                return Some((
                    "machine-fraction".into(),
                    format!(
                        "SendPadding for machine {} although its budget ({} packets) is used up and its padding fraction {}/{} is not below max_padding_frac {}",
                        a.machine, mach.allowed_padding_packets, pm, mt, mach.max_padding_frac
                    ),
                ));
            }
            if case.pf > 0.0
                && gt > 0
                && not_below(self.pall as u128, gt, self.pall as f64 / gt as f64, case.pf)
            {
                return Some((
                    "framework-fraction".into(),
                    format!(
                        "SendPadding for machine {} although its budget ({} packets, {} reported) is used up and the framework-wide padding fraction {}/{} is not below {}",
                        a.machine, mach.allowed_padding_packets, pm, self.pall, gt, case.pf
                    ),
                ));
            }
        }
        None
    }
    fn nontrivial(&self) -> bool {
        self.decisive >= 1
    }
}

fn c02_tweak(g: &mut Gen, mc: &mut MachCfg, hc: &mut HistCfg) {
    mc.action_w = [1, 1, 9, 1, 1];
    mc.pad_budgets = vec![0, 0, 1, 2, 5, u64::MAX];
    mc.fracs = vec![0.0, 0.25, 0.5, 0.5, 1.0 / 3.0, 1.0, 1.0 / 1048576.0];
    mc.p_trans = *g.pick(&[0.4, 0.7, 0.9]);
    mc.p_limit = *g.pick(&[0.0, 0.2]);
    hc.single_event = true;
    hc.p_empty = 0.0;
    hc.p_open = *g.pick(&[0.3, 0.6, 0.9]);
    hc.open_w = [1, 1, 1, 8, 8, 1, 1, 1, 1, 1];
}

impl FwProp for C02 {
    fn info(&self) -> EngineInfo {
        EngineInfo {
            property: "C02",
            engine: "fwsim",
            level: "exploration",
            rule: "case = 1..4 generated machines biased to SendPadding, budgets {0,1,2,5,MAX}, machine and framework fractions {0,2^-20,1/4,1/3,1/2,1}, single-event calls from the closed loop plus open-loop NormalSent/PaddingSent for own, foreign and unknown ids, report faults; oracle recounts reports independently; distinct = hash of per-call (event kinds, action kinds); non-trivial = at least one SendPadding returned with the packet budget already used up (a fraction rule was decisive)".into(),
            assumptions: vec![
                "'not below' is declared only when both the exact rational comparison and the f64 quotient say >= (neither way of computing the quotient alarms)".into(),
                "multi-event batches are covered through C05's reference semantics, as the property states".into(),
            ],
            real_components: FW_REAL.to_vec(),
            stubbed_components: FW_STUB.to_vec(),
            totality: false,
            cpu_limit_s: crate::sup::CASE_CPU_LIMIT_S,
            exhaustive: false,
        }
    }
    fn n_cases(&self, tier: Tier) -> u64 {
        match tier {
            Tier::Quick => 300_000,
            Tier::Thorough => 6_000_000,
        }
    }
    fn generate(&self, g: &mut Gen, _tier: Tier, stats: &mut Stats) -> FwCase {
        let mut c = gen_wild_case(g, stats, 4, 200, &c02_tweak);
        // fractions that can bind exactly
        let fr = [0.0, 0.25, 0.5, 0.5, 1.0 / 3.0, 1.0];
        let _ = fr;
        c.extra
            .as_object_mut()
            .map(|o| o.insert("single".into(), serde_json::json!(true)));
        c
    }
    fn monitor(&self, case: &FwCase) -> Box<dyn Monitor> {
        Box::new(C02Mon {
            p: vec![0; case.machines.len()],
            n: 0,
            pall: 0,
            decisive: 0,
            checked: 0,
        })
    }
}

// ===========================================================================
// C03

pub struct C03;

struct C03Mon {
    active: bool,
    started: u64,
    total: Duration,
    decisive: u64,
}

impl Monitor for C03Mon {
    fn after_call(
        &mut self,
        case: &FwCase,
        _k: usize,
        call: &Call,
        out: &CallOut,
        stats: &mut Stats,
    ) -> Option<(String, String)> {
        let t = call.now;
        for e in &call.ev {
            match e {
                Ev::BB(_) => {
                    if !self.active {
                        self.active = true;
                        self.started = t;
                    } else {
                        stats.probe("begin_while_active");
                    }
                }
                Ev::BE => {
                    if self.active {
                        self.total += Duration::from_nanos(t.saturating_sub(self.started));
                        stats.probe_if("clock_regression_in_block", t < self.started);
                        self.active = false;
                    } else {
                        stats.probe("end_while_inactive");
                    }
                }
                _ => {}
            }
        }
        if call.ev.len() != 1 {
            return None;
        }
        {
            // reach probe, independent of what was returned: is the blocked share
            // exactly at a configured limit right now?
            let mut blocked = self.total;
            if self.active {
                blocked += Duration::from_nanos(t.saturating_sub(self.started));
            }
            let since = Duration::from_nanos(t.saturating_sub(case.start));
            let (num, den) = (blocked.as_nanos(), since.as_nanos());
            if den > 0 && num > 0 {
                let at = |f: f64| f > 0.0 && cmp_ratio_exact(num, den, f) == Some(Ordering::Equal);
                stats.probe_if(
                    "share_exactly_at_a_limit",
                    at(case.bf) || case.machines.iter().any(|m| at(m.max_blocking_frac)),
                );
            }
        }
        for a in out.actions.iter().filter(|a| a.kind == 2) {
            if a.machine >= case.machines.len() {
                continue;
            }
            let mach = &case.machines[a.machine];
            if a.replace && self.active {
                stats.probe("replace_while_active");
                continue;
            }
            let mut blocked = self.total;
            if self.active {
                blocked += Duration::from_nanos(t.saturating_sub(self.started));
            }
            if blocked < Duration::from_micros(mach.allowed_blocked_microsec) {
                stats.probe("within_time_budget");
                continue;
            }
            self.decisive += 1;
            let since = Duration::from_nanos(t.saturating_sub(case.start));
            stats.probe_if("clock_before_start", t < case.start);
            let fq = blocked.as_secs_f64() / since.as_secs_f64();
            let (num, den) = (blocked.as_nanos(), since.as_nanos());
            let nb = |limit: f64| -> bool {
                if den == 0 {
                    num > 0
                } else {
                    not_below(num, den, fq, limit)
                }
            };
            if mach.max_blocking_frac > 0.0 && nb(mach.max_blocking_frac) {
                return Some((
                    "machine-fraction".into(),
                    format!(
                        "BlockOutgoing (replace {} / blocking active {}) for machine {}: blocked {:?} is not below its budget {}us and the blocked share {:?}/{:?} is not below max_blocking_frac {}",
                        a.replace, self.active, a.machine, blocked, mach.allowed_blocked_microsec, blocked, since, mach.max_blocking_frac
                    ),
                ));
            }
            if case.bf > 0.0 && nb(case.bf) {
                return Some((
                    "framework-fraction".into(),
                    format!(
                        "BlockOutgoing (replace {} / blocking active {}) for machine {}: blocked {:?} is not below its budget {}us and the blocked share {:?}/{:?} is not below the framework max_blocking_frac {}",
                        a.replace, self.active, a.machine, blocked, mach.allowed_blocked_microsec, blocked, since, case.bf
                    ),
                ));
            }
        }
        None
    }
    fn nontrivial(&self) -> bool {
        self.decisive >= 1
    }
}

fn c03_tweak(g: &mut Gen, mc: &mut MachCfg, hc: &mut HistCfg) {
    mc.action_w = [1, 1, 1, 9, 1];
    mc.block_budgets = vec![0, 0, 1, 1000, 5000, u64::MAX];
    mc.fracs = vec![0.0, 0.25, 0.5, 0.5, 1.0 / 3.0, 1.0, 1.0 / 1048576.0];
    mc.times_us = vec![0.0, 0.0, 1000.0, 1000.0, 2000.0, 5000.0];
    mc.p_trans = *g.pick(&[0.4, 0.7, 0.9]);
    mc.p_limit = *g.pick(&[0.0, 0.2]);
    hc.single_event = true;
    hc.p_empty = 0.0;
    hc.unit_ns = 1_000_000;
    hc.p_open = *g.pick(&[0.2, 0.5, 0.8]);
    hc.open_w = [1, 1, 1, 1, 1, 1, 8, 8, 1, 1];
}

impl FwProp for C03 {
    fn info(&self) -> EngineInfo {
        EngineInfo {
            property: "C03",
            engine: "fwsim",
            level: "exploration",
            rule: "case = 1..4 generated machines biased to BlockOutgoing (all flag combinations), time budgets {0,1us,1ms,5ms,MAX}, fractions {0,2^-20,1/4,1/3,1/2,1}, single-event calls, virtual clock in whole milliseconds with stall / backwards / jump faults, BlockingBegin for any id and paired, unpaired and repeated BlockingEnd; oracle recomputes blocked time from reports and call timestamps; distinct = hash of per-call (event kinds, action kinds); non-trivial = at least one BlockOutgoing returned with the time budget used up and the replace-while-active exemption not applying (a fraction rule was decisive)".into(),
            assumptions: vec![
                "'not below' is declared only when both the exact rational comparison and the f64 quotient say >=".into(),
                "0/0 counts as below, x/0 as above (time since start zero or negative)".into(),
                "machine start equals framework start (one instant passed to Framework::new)".into(),
            ],
            real_components: FW_REAL.to_vec(),
            stubbed_components: FW_STUB.to_vec(),
            totality: false,
            cpu_limit_s: crate::sup::CASE_CPU_LIMIT_S,
            exhaustive: false,
        }
    }
    fn n_cases(&self, tier: Tier) -> u64 {
        match tier {
            Tier::Quick => 300_000,
            Tier::Thorough => 6_000_000,
        }
    }
    fn generate(&self, g: &mut Gen, _tier: Tier, stats: &mut Stats) -> FwCase {
        gen_wild_case(g, stats, 4, 200, &c03_tweak)
    }
    fn monitor(&self, _case: &FwCase) -> Box<dyn Monitor> {
        Box::new(C03Mon {
            active: false,
            started: 0,
            total: Duration::ZERO,
            decisive: 0,
        })
    }
}

//! Engine E: the C API (maybenot-ffi) in lock-step with the Rust framework.
//! The FFI's two hidden nondeterminism sources - the wall clock read in
//! `maybenot_on_events` and the OS entropy used in `maybenot_start` - are
//! substituted through hook H3, so probabilistic machines are covered too.

use crate::codec::live_bytes;
use crate::common::*;
use crate::mach::{self, Family, MachCfg};
use crate::sup::{catch_sut, panic_class, Engine, EngineInfo, Stats, Tier, Violation};
use maybenot::{Framework, Machine, MachineId, Timer, TriggerAction, TriggerEvent};
use maybenot_ffi::{
    maybenot_num_machines, maybenot_on_events, maybenot_start, maybenot_stop, MaybenotAction,
    MaybenotEvent, MaybenotEventType, MaybenotFramework, MaybenotTimer,
};
use rand::rngs::adapter::ReseedingRng;
use rand::rngs::OsRng;
use rand::SeedableRng;
use rand_chacha::ChaCha12Core;
use serde::{Deserialize, Serialize};
use serde_json::{json, Value};
use std::ffi::CString;
use std::mem::MaybeUninit;
use std::str::FromStr;
use std::time::{Duration, Instant};

pub struct C20;

type RefRng = ReseedingRng<ChaCha12Core, OsRng>;
type RefFw = Framework<Vec<Machine>, RefRng>;

#[derive(Clone, Debug, Serialize, Deserialize, PartialEq)]
struct Batch {
    /// offset of the virtual clock relative to (start + 1 s), in ns (may be negative)
    at_ns: i64,
    /// (event type 0..9, machine id)
    ev: Vec<(u32, u64)>,
}

#[derive(Clone, Debug)]
enum Case {
    LockStep {
        machines: Vec<Machine>,
        pf: f64,
        bf: f64,
        seed: u64,
        batches: Vec<Batch>,
        /// line separator / framing variant of the machine string
        framing: u8,
    },
    StartArgs {
        /// raw bytes of the machines string (without the terminating NUL)
        bytes: Vec<u8>,
        pf_bits: u64,
        bf_bits: u64,
        what: String,
    },
    NullPointers {
        machines: Vec<Machine>,
    },
    Leak {
        machines: Vec<Machine>,
        cycles: u32,
    },
}

fn case_json(c: &Case) -> Value {
    match c {
        Case::LockStep {
            machines,
            pf,
            bf,
            seed,
            batches,
            framing,
        } => json!({
            "kind": "lockstep", "machines": mach::enc_all(machines),
            "machines_readable": machines.iter().map(mach::describe).collect::<Vec<_>>(),
            "pf_bits": pf.to_bits(), "bf_bits": bf.to_bits(), "fracs": [pf, bf], "seed": seed, "batches": batches, "framing": framing}),
        Case::StartArgs {
            bytes,
            pf_bits,
            bf_bits,
            what,
        } => json!({
            "kind": "start_args", "bytes_hex": hex::encode(bytes), "pf_bits": pf_bits, "bf_bits": bf_bits,
            "fracs": [f64::from_bits(*pf_bits).to_string(), f64::from_bits(*bf_bits).to_string()], "what": what}),
        Case::NullPointers { machines } => {
            json!({"kind": "null_pointers", "machines": mach::enc_all(machines)})
        }
        Case::Leak { machines, cycles } => {
            json!({"kind": "leak", "machines": mach::enc_all(machines), "cycles": cycles})
        }
    }
}
fn case_from(v: &Value) -> Option<Case> {
    Some(match v["kind"].as_str()? {
        "lockstep" => Case::LockStep {
            machines: mach::dec_all(&v["machines"])?,
            pf: f64::from_bits(v["pf_bits"].as_u64()?),
            bf: f64::from_bits(v["bf_bits"].as_u64()?),
            seed: v["seed"].as_u64()?,
            batches: serde_json::from_value(v["batches"].clone()).ok()?,
            framing: v["framing"].as_u64().unwrap_or(0) as u8,
        },
        "start_args" => Case::StartArgs {
            bytes: hex::decode(v["bytes_hex"].as_str()?).ok()?,
            pf_bits: v["pf_bits"].as_u64()?,
            bf_bits: v["bf_bits"].as_u64()?,
            what: v["what"].as_str().unwrap_or("").to_string(),
        },
        "null_pointers" => Case::NullPointers {
            machines: mach::dec_all(&v["machines"])?,
        },
        "leak" => Case::Leak {
            machines: mach::dec_all(&v["machines"])?,
            cycles: v["cycles"].as_u64()? as u32,
        },
        _ => return None,
    })
}

fn ev_type(t: u32) -> MaybenotEventType {
    match t {
        0 => MaybenotEventType::NormalRecv,
        1 => MaybenotEventType::PaddingRecv,
        2 => MaybenotEventType::TunnelRecv,
        3 => MaybenotEventType::NormalSent,
        4 => MaybenotEventType::PaddingSent,
        5 => MaybenotEventType::TunnelSent,
        6 => MaybenotEventType::BlockingBegin,
        7 => MaybenotEventType::BlockingEnd,
        8 => MaybenotEventType::TimerBegin,
        _ => MaybenotEventType::TimerEnd,
    }
}
fn trig(t: u32, id: u64) -> TriggerEvent {
    let machine = MachineId::from_raw(id as usize);
    match t {
        0 => TriggerEvent::NormalRecv,
        1 => TriggerEvent::PaddingRecv,
        2 => TriggerEvent::TunnelRecv,
        3 => TriggerEvent::NormalSent,
        4 => TriggerEvent::PaddingSent { machine },
        5 => TriggerEvent::TunnelSent,
        6 => TriggerEvent::BlockingBegin { machine },
        7 => TriggerEvent::BlockingEnd,
        8 => TriggerEvent::TimerBegin { machine },
        _ => TriggerEvent::TimerEnd { machine },
    }
}

/// (kind, machine, bypass, replace, timer, timeout secs, nanos, duration secs, nanos)
type Flat = (u8, usize, bool, bool, u8, u64, u32, u64, u32);

fn flat_ref(a: &TriggerAction) -> Flat {
    match a {
        TriggerAction::Cancel { machine, timer } => (
            0,
            machine.into_raw(),
            false,
            false,
            match timer {
                Timer::Action => 0,
                Timer::Internal => 1,
                Timer::All => 2,
            },
            0,
            0,
            0,
            0,
        ),
        TriggerAction::SendPadding {
            timeout,
            bypass,
            replace,
            machine,
        } => (
            1,
            machine.into_raw(),
            *bypass,
            *replace,
            9,
            timeout.as_secs(),
            timeout.subsec_nanos(),
            0,
            0,
        ),
        TriggerAction::BlockOutgoing {
            timeout,
            duration,
            bypass,
            replace,
            machine,
        } => (
            2,
            machine.into_raw(),
            *bypass,
            *replace,
            9,
            timeout.as_secs(),
            timeout.subsec_nanos(),
            duration.as_secs(),
            duration.subsec_nanos(),
        ),
        TriggerAction::UpdateTimer {
            duration,
            replace,
            machine,
        } => (
            3,
            machine.into_raw(),
            false,
            *replace,
            9,
            0,
            0,
            duration.as_secs(),
            duration.subsec_nanos(),
        ),
    }
}
fn flat_ffi(a: &MaybenotAction) -> Flat {
    match *a {
        MaybenotAction::Cancel { machine, timer } => (
            0,
            machine,
            false,
            false,
            match timer {
                MaybenotTimer::Action => 0,
                MaybenotTimer::Internal => 1,
                MaybenotTimer::All => 2,
            },
            0,
            0,
            0,
            0,
        ),
        MaybenotAction::SendPadding {
            machine,
            timeout,
            replace,
            bypass,
        } => (
            1,
            machine,
            bypass,
            replace,
            9,
            timeout.secs,
            timeout.nanos,
            0,
            0,
        ),
        MaybenotAction::BlockOutgoing {
            machine,
            timeout,
            replace,
            bypass,
            duration,
        } => (
            2,
            machine,
            bypass,
            replace,
            9,
            timeout.secs,
            timeout.nanos,
            duration.secs,
            duration.nanos,
        ),
        MaybenotAction::UpdateTimer {
            machine,
            duration,
            replace,
        } => (
            3,
            machine,
            false,
            replace,
            9,
            0,
            0,
            duration.secs,
            duration.nanos,
        ),
    }
}

fn machines_string(ms: &[Machine], framing: u8) -> String {
    let strs: Vec<String> = ms.iter().map(|m| m.serialize()).collect();
    match framing {
        1 => strs.join("\r\n"),
        2 => {
            let mut s = strs.join("\n");
            if !s.is_empty() {
                s.push('\n');
            }
            s
        }
        3 => {
            let mut s = strs.join("\r\n");
            if !s.is_empty() {
                s.push_str("\r\n");
            }
            s
        }
        _ => strs.join("\n"),
    }
}

struct Ffi {
    p: *mut MaybenotFramework,
}
impl Drop for Ffi {
    fn drop(&mut self) {
        if !self.p.is_null() {
            unsafe { maybenot_stop(self.p) };
        }
    }
}

fn start(bytes: &[u8], pf: f64, bf: f64) -> (u32, Option<Ffi>) {
    let Ok(c) = CString::new(bytes.to_vec()) else {
        return (u32::MAX, None);
    };
    let mut out: MaybeUninit<*mut MaybenotFramework> = MaybeUninit::new(std::ptr::null_mut());
    let r = unsafe { maybenot_start(c.as_ptr(), pf, bf, &mut out) } as u32;
    if r == 0 {
        let p = unsafe { out.assume_init() };
        (r, Some(Ffi { p }))
    } else {
        (r, None)
    }
}

const GUARD: usize = 3;
const CANARY: u8 = 0xA5;

fn ref_rng(seed: u64) -> RefRng {
    ReseedingRng::new(ChaCha12Core::seed_from_u64(seed), 0, OsRng)
}

impl C20 {
    fn lockstep(
        &self,
        machines: &[Machine],
        pf: f64,
        bf: f64,
        seed: u64,
        batches: &[Batch],
        framing: u8,
        stats: &mut Stats,
    ) -> Vec<(String, String)> {
        let mut v = vec![];
        let s = machines_string(machines, framing);
        maybenot_ffi::verif::set_seed(Some(seed));
        let t_before = Instant::now();
        let (rc, ffi) = start(s.as_bytes(), pf, bf);
        let t_after = Instant::now();
        maybenot_ffi::verif::set_seed(None);
        let Some(ffi) = ffi else {
            v.push((
                "start-rejected".into(),
                format!(
                    "maybenot_start returned {rc} for machines and fractions the Rust API accepts"
                ),
            ));
            return v;
        };
        // machines as the C API parsed them (string round trip is C11's business)
        let parsed: Vec<Machine> = s
            .lines()
            .filter_map(|l| Machine::from_str(l).ok())
            .collect();
        let (Ok(mut ra), Ok(mut rb)) = (
            RefFw::new(parsed.clone(), pf, bf, t_before, ref_rng(seed)),
            RefFw::new(parsed.clone(), pf, bf, t_after, ref_rng(seed)),
        ) else {
            v.push((
                "start-accepted-invalid".into(),
                "maybenot_start accepted what Framework::new rejects".into(),
            ));
            return v;
        };
        let n = unsafe { maybenot_num_machines(ffi.p) };
        if n != parsed.len() {
            v.push((
                "num-machines".into(),
                format!(
                    "maybenot_num_machines = {n}, machines given: {}",
                    parsed.len()
                ),
            ));
            return v;
        }
        let asz = std::mem::size_of::<MaybenotAction>();
        let base = t_after + Duration::from_secs(1);
        for (bi, b) in batches.iter().enumerate() {
            let now = if b.at_ns >= 0 {
                base + Duration::from_nanos(b.at_ns as u64)
            } else {
                base.checked_sub(Duration::from_nanos((-b.at_ns) as u64))
                    .unwrap_or(t_before)
            };
            let evs: Vec<TriggerEvent> = b.ev.iter().map(|(t, id)| trig(*t, *id)).collect();
            let wa: Vec<Flat> = ra.trigger_events(&evs, now).map(flat_ref).collect();
            let wb: Vec<Flat> = rb.trigger_events(&evs, now).map(flat_ref).collect();
            if wa != wb {
                // a time predicate sits inside the few microseconds the real start
                // instant is uncertain by: nothing can be said from here on
                stats.inc("ambiguous_skipped");
                return v;
            }
            let cev: Vec<MaybenotEvent> =
                b.ev.iter()
                    .map(|(t, id)| MaybenotEvent {
                        event_type: ev_type(*t),
                        machine: *id as usize,
                    })
                    .collect();
            let slots = GUARD + n + GUARD;
            let mut buf: Vec<MaybeUninit<MaybenotAction>> = Vec::with_capacity(slots);
            unsafe {
                std::ptr::write_bytes(buf.as_mut_ptr() as *mut u8, CANARY, slots * asz);
                buf.set_len(slots);
            }
            let mut count: usize = usize::MAX;
            maybenot_ffi::verif::set_now(Some(now));
            // a dangling-but-aligned pointer stands in for an empty array
            let evp = if cev.is_empty() {
                std::ptr::NonNull::<MaybenotEvent>::dangling().as_ptr() as *const MaybenotEvent
            } else {
                cev.as_ptr()
            };
            let r = catch_sut(|| unsafe {
                maybenot_on_events(
                    ffi.p,
                    evp,
                    cev.len(),
                    buf.as_mut_ptr().add(GUARD),
                    &mut count,
                ) as u32
            });
            maybenot_ffi::verif::set_now(None);
            stats.inc("calls");
            stats.add("events", cev.len() as u64);
            let rc = match r {
                Ok(rc) => rc,
                Err(p) => {
                    std::mem::forget(ffi); // state unknown after a panic
                    v.push((
                        panic_class(&p),
                        format!("maybenot_on_events panicked in batch {bi}: {p}"),
                    ));
                    return v;
                }
            };
            if rc != 0 {
                v.push((
                    "on-events-error".into(),
                    format!("batch {bi}: maybenot_on_events returned {rc}"),
                ));
                return v;
            }
            let raw = unsafe { std::slice::from_raw_parts(buf.as_ptr() as *const u8, slots * asz) };
            let untouched =
                |from: usize, to: usize| raw[from * asz..to * asz].iter().all(|b| *b == CANARY);
            if !untouched(0, GUARD) || !untouched(GUARD + n, slots) {
                v.push((
                    "out-of-bounds-write".into(),
                    format!("batch {bi}: bytes outside the {n} output slots were modified"),
                ));
                return v;
            }
            if count > n {
                v.push((
                    "count-over-num-machines".into(),
                    format!("batch {bi}: count {count} exceeds num_machines {n}"),
                ));
                return v;
            }
            if !untouched(GUARD + count, GUARD + n) {
                v.push(("slot-beyond-count-written".into(), format!("batch {bi}: output slots at or beyond the returned count {count} were modified")));
                return v;
            }
            let got: Vec<Flat> = (0..count)
                .map(|i| flat_ffi(unsafe { &*buf[GUARD + i].as_ptr() }))
                .collect();
            stats.add("actions", got.len() as u64);
            if got != wa {
                v.push((
                    "actions-differ".into(),
                    format!(
                        "batch {bi} ({} events): C API wrote {:?} but the Rust framework returns {:?} (kind, machine, bypass, replace, timer, timeout s, ns, duration s, ns)",
                        b.ev.len(),
                        got,
                        wa
                    ),
                ));
                return v;
            }
            stats.probe_if("full_buffer", n > 0 && count == n);
            stats.probe_if("nonzero_subsec", got.iter().any(|f| f.6 != 0 || f.8 != 0));
            stats.probe_if("secs_nonzero", got.iter().any(|f| f.5 != 0 || f.7 != 0));
        }
        v
    }

    fn run(&self, c: &Case, stats: &mut Stats) -> Vec<(String, String)> {
        match c {
            Case::LockStep {
                machines,
                pf,
                bf,
                seed,
                batches,
                framing,
            } => {
                stats.inc("lockstep_runs");
                self.lockstep(machines, *pf, *bf, *seed, batches, *framing, stats)
            }
            Case::StartArgs {
                bytes,
                pf_bits,
                bf_bits,
                what,
            } => {
                stats.inc("start_arg_cases");
                stats.fault(&format!("start.{what}"));
                let (pf, bf) = (f64::from_bits(*pf_bits), f64::from_bits(*bf_bits));
                // harness-side reference of what the Rust API accepts
                let want: u32 = match std::str::from_utf8(bytes) {
                    Err(_) => 1,
                    Ok(s) => {
                        let ms: Result<Vec<Machine>, _> =
                            s.lines().map(Machine::from_str).collect();
                        match ms {
                            Err(_) => 2,
                            Ok(ms) => {
                                match Framework::new(ms, pf, bf, Instant::now(), ref_rng(1)) {
                                    Err(_) => 3,
                                    Ok(_) => 0,
                                }
                            }
                        }
                    }
                };
                let r = catch_sut(|| start(bytes, pf, bf));
                match r {
                    Err(p) => vec![(
                        panic_class(&p),
                        format!("maybenot_start panicked ({what}): {p}"),
                    )],
                    Ok((rc, _ffi)) => {
                        if rc == u32::MAX {
                            return vec![]; // interior NUL: not expressible as a C string
                        }
                        if rc != 0 {
                            // a rejected start must not keep anything allocated
                            let before = live_bytes();
                            for _ in 0..4 {
                                let _ = catch_sut(|| start(bytes, pf, bf));
                            }
                            let after = live_bytes();
                            if after > before {
                                return vec![(
                                    "leak-on-failed-start".into(),
                                    format!("{} bytes still allocated after 4 rejected calls of maybenot_start ({what}, result code {rc})", after - before),
                                )];
                            }
                        }
                        if rc != want {
                            vec![(
                                "start-code".into(),
                                format!("maybenot_start ({what}, fractions {pf} {bf}) returned {rc}, the Rust API gives {want} (0 ok, 1 not UTF-8, 2 invalid machine string, 3 start framework)"),
                            )]
                        } else {
                            vec![]
                        }
                    }
                }
            }
            Case::NullPointers { machines } => {
                stats.inc("null_pointer_cases");
                stats.fault("null_pointer");
                let mut v = vec![];
                let s = machines_string(machines, 0);
                let c = CString::new(s.clone()).unwrap();
                let r =
                    unsafe { maybenot_start(c.as_ptr(), 0.0, 0.0, std::ptr::null_mut()) } as u32;
                if r != 4 {
                    v.push(("null-out".into(), format!("maybenot_start with a null out pointer returned {r}, expected 4 (NullPointer)")));
                }
                // a start that fails hands nothing to the caller, so nothing of it may
                // stay allocated (the first call above was the warm-up)
                let before = live_bytes();
                for _ in 0..8 {
                    unsafe { maybenot_start(c.as_ptr(), 0.0, 0.0, std::ptr::null_mut()) };
                }
                let after = live_bytes();
                if after > before {
                    v.push((
                        "leak-on-failed-start".into(),
                        format!("{} bytes still allocated after 8 calls of maybenot_start with valid machines and a null out pointer (each returned NullPointer, nothing can be passed to maybenot_stop)", after - before),
                    ));
                }
                if unsafe { maybenot_num_machines(std::ptr::null_mut()) } != 0 {
                    v.push((
                        "null-num-machines".into(),
                        "maybenot_num_machines(null) is not 0".into(),
                    ));
                }
                let (rc, ffi) = start(s.as_bytes(), 0.0, 0.0);
                let Some(ffi) = ffi else {
                    v.push((
                        "start-rejected".into(),
                        format!("maybenot_start returned {rc}"),
                    ));
                    return v;
                };
                let n = machines.len();
                let ev = [MaybenotEvent {
                    event_type: MaybenotEventType::NormalSent,
                    machine: 0,
                }];
                let mut buf: Vec<MaybeUninit<MaybenotAction>> =
                    (0..n + 1).map(|_| MaybeUninit::uninit()).collect();
                let mut count = 77usize;
                let cases: [(
                    &str,
                    *mut MaybenotFramework,
                    *const MaybenotEvent,
                    *mut MaybeUninit<MaybenotAction>,
                    *mut usize,
                ); 4] = [
                    (
                        "instance",
                        std::ptr::null_mut(),
                        ev.as_ptr(),
                        buf.as_mut_ptr(),
                        &mut count,
                    ),
                    (
                        "events",
                        ffi.p,
                        std::ptr::null(),
                        buf.as_mut_ptr(),
                        &mut count,
                    ),
                    (
                        "actions",
                        ffi.p,
                        ev.as_ptr(),
                        std::ptr::null_mut(),
                        &mut count,
                    ),
                    (
                        "count",
                        ffi.p,
                        ev.as_ptr(),
                        buf.as_mut_ptr(),
                        std::ptr::null_mut(),
                    ),
                ];
                // every null pointer, with a batch of one event and with an empty batch
                for nev in [1usize, 0] {
                    for (name, a, b, c2, d) in cases {
                        let r = catch_sut(|| unsafe { maybenot_on_events(a, b, nev, c2, d) as u32 });
                        match r {
                            Ok(4) => {}
                            Ok(x) => v.push(("null-on-events".into(), format!("maybenot_on_events with a null {name} pointer and {nev} event(s) returned {x}, expected 4"))),
                            Err(p) => v.push((panic_class(&p), format!("maybenot_on_events with a null {name} pointer and {nev} event(s) panicked: {p}"))),
                        }
                    }
                }
                if count != 77 {
                    v.push((
                        "null-on-events".into(),
                        "count was written although an error was returned".into(),
                    ));
                }
                v
            }
            Case::Leak { machines, cycles } => {
                stats.inc("leak_cases");
                let s = machines_string(machines, 0);
                let cycle = |k: u32| {
                    maybenot_ffi::verif::set_seed(Some(k as u64));
                    let (_, ffi) = start(s.as_bytes(), 0.5, 0.5);
                    maybenot_ffi::verif::set_seed(None);
                    if let Some(ffi) = ffi {
                        let n = unsafe { maybenot_num_machines(ffi.p) };
                        let ev: Vec<MaybenotEvent> = (0..20)
                            .map(|i| MaybenotEvent {
                                event_type: ev_type((i + k) % 10),
                                machine: (i as usize) % (n + 1),
                            })
                            .collect();
                        let mut buf: Vec<MaybeUninit<MaybenotAction>> =
                            (0..n).map(|_| MaybeUninit::uninit()).collect();
                        let mut count = 0usize;
                        // a dangling, aligned pointer is fine for zero machines
                        let bp = if n == 0 {
                            std::ptr::NonNull::<MaybeUninit<MaybenotAction>>::dangling().as_ptr()
                        } else {
                            buf.as_mut_ptr()
                        };
                        unsafe { maybenot_on_events(ffi.p, ev.as_ptr(), ev.len(), bp, &mut count) };
                        drop(buf);
                        drop(ev);
                        drop(ffi); // maybenot_stop
                    }
                };
                cycle(0); // warm-up: lazily initialised statics of the runtime
                cycle(1);
                let before = live_bytes();
                for k in 0..*cycles {
                    cycle(k + 2);
                }
                let after = live_bytes();
                stats.add("start_stop_cycles", *cycles as u64);
                if after > before {
                    vec![(
                        "leak".into(),
                        format!("{} bytes still allocated after {cycles} start/stop cycles ({} per cycle)", after - before, (after - before) / (*cycles as usize).max(1)),
                    )]
                } else {
                    vec![]
                }
            }
        }
    }

    fn gen(&self, g: &mut Gen, stats: &mut Stats) -> Case {
        let gen_machines = |g: &mut Gen, max: usize| -> Vec<Machine> {
            let fam = *g.pick(&[Family::Det, Family::Dyadic, Family::Wild, Family::Wild]);
            let mut mc = MachCfg::new(fam);
            mc.max_states = 1 + g.usize(4);
            mc.p_trans = *g.pick(&[0.3, 0.5, 0.8]);
            mc.p_counter = 0.3;
            mc.p_limit = 0.3;
            mc.times_us = vec![
                0.0,
                1.0,
                999.0,
                1000.0,
                1_000_000.0,
                1_500_000.5,
                86_400_000_000.0,
                2_000_001.0,
            ];
            let n = if g.chance(0.05) { 0 } else { 1 + g.usize(max) };
            (0..n).map(|_| mach::gen_machine(g, &mc)).collect()
        };
        match g.below(100) {
            0..=69 => {
                let machines = gen_machines(g, 5);
                let m = machines.len() as u64;
                let nb = 1 + g.usize(40);
                let mut t: i64 = 0;
                let batches = (0..nb)
                    .map(|_| {
                        t += match g.below(8) {
                            0 => 0,
                            1 => -(g.below(3_000_000_000) as i64),
                            2 => g.below(1000) as i64,
                            3 => 86_400_000_000_000,
                            _ => g.below(50_000_000) as i64,
                        };
                        let ne = if g.chance(0.1) { 0 } else { 1 + g.usize(12) };
                        Batch {
                            at_ns: t,
                            ev: (0..ne)
                                .map(|_| {
                                    let id = if m > 0 && g.chance(0.8) {
                                        g.below(m)
                                    } else {
                                        *g.pick(&[m, m + 1, u32::MAX as u64, usize::MAX as u64])
                                    };
                                    (g.below(10) as u32, id)
                                })
                                .collect(),
                        }
                    })
                    .collect();
                let fr = [0.0, 0.0, 0.5, 1.0, 0.25];
                Case::LockStep {
                    machines,
                    pf: *g.pick(&fr),
                    bf: *g.pick(&fr),
                    seed: g.u64(),
                    batches,
                    framing: g.below(4) as u8,
                }
            }
            70..=89 => {
                let machines = gen_machines(g, 3);
                let good = machines_string(&machines, 0);
                let mut bytes = good.clone().into_bytes();
                let mut pf = *g.pick(&[0.0f64, 0.5, 1.0, -0.0]);
                let mut bf = *g.pick(&[0.0f64, 0.5, 1.0, -0.0]);
                let what = match g.below(12) {
                    0 => "valid",
                    1 => {
                        bytes = vec![];
                        "empty_string"
                    }
                    2 => {
                        bytes = machines_string(&machines, 1).into_bytes();
                        "crlf"
                    }
                    3 => {
                        bytes.extend_from_slice(b"\n\n");
                        "blank_line"
                    }
                    4 => {
                        bytes = machines_string(&machines, 2).into_bytes();
                        "trailing_newline"
                    }
                    5 => {
                        if !bytes.is_empty() {
                            let i = g.usize(bytes.len());
                            bytes[i] = *g.pick(&[0xffu8, 0xc3, 0x80, 0xfe]);
                        } else {
                            bytes = vec![0xff];
                        }
                        "non_utf8"
                    }
                    6 => {
                        if !bytes.is_empty() {
                            let i = g.usize(bytes.len());
                            bytes[i] = *g.pick(b"!*AZ09 ");
                        } else {
                            bytes = b"garbage".to_vec();
                        }
                        "corrupt_machine"
                    }
                    7 => {
                        pf = *g.pick(&[
                            f64::NAN,
                            f64::INFINITY,
                            f64::NEG_INFINITY,
                            -1e-300,
                            1.0000000000000002,
                            2.0,
                        ]);
                        "bad_padding_frac"
                    }
                    8 => {
                        bf = *g.pick(&[
                            f64::NAN,
                            f64::INFINITY,
                            f64::NEG_INFINITY,
                            -1e-300,
                            1.0000000000000002,
                            2.0,
                        ]);
                        "bad_blocking_frac"
                    }
                    9 => {
                        bytes = b"\n".to_vec();
                        "only_newline"
                    }
                    10 => {
                        let mut b2 = b"\n".to_vec();
                        b2.extend(bytes);
                        bytes = b2;
                        "leading_newline"
                    }
                    _ => {
                        let n = g.usize(bytes.len() + 1);
                        bytes.truncate(n);
                        "truncated"
                    }
                };
                bytes.retain(|b| *b != 0);
                Case::StartArgs {
                    bytes,
                    pf_bits: pf.to_bits(),
                    bf_bits: bf.to_bits(),
                    what: what.to_string(),
                }
            }
            90..=94 => Case::NullPointers {
                machines: gen_machines(g, 3),
            },
            _ => {
                let _ = stats;
                Case::Leak {
                    machines: gen_machines(g, 4),
                    cycles: 40,
                }
            }
        }
    }
}

impl Engine for C20 {
    fn info(&self) -> EngineInfo {
        EngineInfo {
            property: "C20",
            engine: "ffisim",
            level: "exploration",
            rule: "case kinds: (70%) lock-step - 0..5 generated machines of every family (probabilistic ones included: the API's entropy is replaced by a seeded ChaCha12 stream through hook H3b), fractions, 1..40 batches of 0..12 events over the 10 event types with valid, unknown and huge machine ids, virtual clock (hook H3a) with zero, small, large and backwards steps; the same batches drive two Rust reference frameworks seeded identically and started just before / just after maybenot_start; actions compared field by field, output buffer surrounded by canary-filled guard slots, unused slots checked untouched, count <= num_machines; four line framings of the machine string; (20%) start arguments: valid, empty string, CRLF, blank line, trailing/leading/only newline, non-UTF-8 byte, corrupted machine, truncated, fractions NaN/+-inf/-1e-300/1+ulp/2/-0.0 - result code compared with a harness-side reference of the Rust API; (5%) each null pointer of maybenot_start/on_events/num_machines, and no bytes left allocated by starts that fail (null out with valid machines; every rejected start-argument case); (5%) 40 start/on_events/stop cycles under the counting allocator; distinct = hash of the case; non-trivial = lock-step case that returned at least one action".into(),
            assumptions: vec![
                "the API's real start instant is unknown within the microseconds of the maybenot_start call: two references started before/after that call must agree, otherwise the case stops and is counted in ambiguous_skipped".into(),
                "maybenot.h is not compiled: the extern \"C\" functions are called from Rust with repr(C) types".into(),
                "the machine-string pointer and the pointer given to maybenot_stop are always valid (documented safety contract)".into(),
            ],
            real_components: vec![
                "maybenot_ffi: maybenot_start / on_events / num_machines / stop, convert_event / convert_action, repr(C) types",
                "maybenot::Framework behind the C boundary and as reference",
            ],
            stubbed_components: vec![
                "wall clock of on_events: virtual instant via hook H3a",
                "OS entropy of start: seeded ChaCha12, reseeding off, via hook H3b",
                "C caller: Rust harness with canary buffers and counting allocator",
            ],
            totality: true,
            cpu_limit_s: crate::sup::CASE_CPU_LIMIT_S,
            exhaustive: false,
        }
    }
    fn n_cases(&self, tier: Tier) -> u64 {
        match tier {
            Tier::Quick => 150_000,
            Tier::Thorough => 4_000_000,
        }
    }
    fn run_case(&self, k: u64, seed: u64, _tier: Tier, stats: &mut Stats) -> Vec<Violation> {
        let mut g = Gen::new(seed);
        let c = self.gen(&mut g, stats);
        let cj = case_json(&c);
        if k < 3 {
            let mut s = cj.clone();
            s["machines"] = Value::Null;
            stats.samples.push(s);
        }
        let a0 = stats.get("actions");
        let v = self.run(&c, stats);
        if v.is_empty() && stats.get("actions") > a0 {
            let mut h = Fnv::default();
            h.bytes(cj.to_string().as_bytes());
            stats.shapes.insert(h.0);
        }
        v.into_iter()
            .map(|(cl, d)| Violation::new(&cl, d, Some(cj.clone())))
            .collect()
    }
    fn replay(&self, case: &Value, stats: &mut Stats) -> Vec<Violation> {
        match case_from(case) {
            Some(c) => self
                .run(&c, stats)
                .into_iter()
                .map(|(cl, d)| Violation::new(&cl, d, Some(case.clone())))
                .collect(),
            None => vec![],
        }
    }
    fn shrink(&self, case: &Value) -> Vec<Value> {
        let Some(c) = case_from(case) else {
            return vec![];
        };
        let mut out = vec![];
        if let Case::LockStep {
            machines,
            pf,
            bf,
            seed,
            batches,
            framing,
        } = c
        {
            let mk = |machines: Vec<Machine>, batches: Vec<Batch>, framing: u8| Case::LockStep {
                machines,
                pf,
                bf,
                seed,
                batches,
                framing,
            };
            let n = batches.len();
            if n > 1 {
                out.push(mk(machines.clone(), batches[..n / 2 + 1].to_vec(), framing));
                for i in 0..n - 1 {
                    let mut b = batches.clone();
                    b.remove(i);
                    out.push(mk(machines.clone(), b, framing));
                }
            }
            for (i, b) in batches.iter().enumerate() {
                for j in 0..b.ev.len() {
                    let mut bb = batches.clone();
                    bb[i].ev.remove(j);
                    out.push(mk(machines.clone(), bb, framing));
                }
            }
            for i in 0..machines.len() {
                for m2 in mach::shrink_machine(&machines[i]) {
                    let mut ms = machines.clone();
                    ms[i] = m2;
                    out.push(mk(ms, batches.clone(), framing));
                }
            }
            if framing != 0 {
                out.push(mk(machines.clone(), batches.clone(), 0));
            }
        }
        out.iter().map(case_json).collect()
    }
}

//! mbn-dst: deterministic simulation with fault injection for maybenot.
//!
//!   mbn-dst check <property> <quick|thorough>
//!   mbn-dst --replay <file> [--quiet]
//!   mbn-dst --worker <property> <tier> <seed> <start> <step> <end>   (internal)

mod codec;
mod common;
mod distsim;
mod drawspace;
mod ffisim;
mod fwsim;
mod mach;
mod props_budget;
mod props_fw;
mod props_more;
mod props_ref;
mod props_sim;
mod props_simexact;
mod props_simtimers;
mod refmodel;
mod simsut;
mod sup;

use sup::{Engine, Tier};

#[global_allocator]
static ALLOC: codec::CountingAlloc = codec::CountingAlloc;

fn engine_for(prop: &str) -> Option<Box<dyn Engine>> {
    use props_fw::FwEngine;
    Some(match prop {
        "C01" => Box::new(FwEngine(props_fw::C01)),
        "C02" => Box::new(FwEngine(props_budget::C02)),
        "C03" => Box::new(FwEngine(props_budget::C03)),
        "C04" => Box::new(FwEngine(props_fw::C04)),
        "C07" => Box::new(FwEngine(props_more::C07)),
        "C08" => Box::new(FwEngine(props_more::C08)),
        "C09" => Box::new(FwEngine(props_more::C09)),
        "C10" => Box::new(FwEngine(props_more::C10)),
        "C06" => Box::new(drawspace::C06),
        "C05" => Box::new(FwEngine(props_ref::C05)),
        "C11" => Box::new(codec::C11),
        "C13" => Box::new(distsim::C13),
        "C14" => Box::new(props_sim::SimEngine(props_sim::C14)),
        "C15" => Box::new(props_sim::SimEngine(props_sim::C15)),
        "C16" => Box::new(props_sim::SimEngine(props_simtimers::C16)),
        "C17" => Box::new(props_sim::SimEngine(props_simtimers::C17)),
        "C18" => Box::new(props_sim::SimEngine(props_simtimers::C18)),
        "C19" => Box::new(props_sim::SimEngine(props_sim::C19)),
        "C20" => Box::new(ffisim::C20),
        _ => return None,
    })
}

fn vseed() -> u64 {
    std::env::var("VERIF_SEED")
        .ok()
        .and_then(|s| s.trim().parse::<u64>().ok())
        .unwrap_or(1)
}

fn main() {
    let args: Vec<String> = std::env::args().skip(1).collect();
    let a: Vec<&str> = args.iter().map(|s| s.as_str()).collect();
    let code = match a.as_slice() {
        ["check", prop, tier] => {
            let Some(e) = engine_for(prop) else {
                eprintln!("unknown property {prop}");
                std::process::exit(2);
            };
            let Some(t) = Tier::parse(tier) else {
                eprintln!("unknown tier {tier}");
                std::process::exit(2);
            };
            sup::supervise(e.as_ref(), t, vseed()).exit
        }
        ["--worker", prop, tier, seed, start, step, end] => {
            let e = engine_for(prop).expect("property");
            sup::worker_main(
                e.as_ref(),
                Tier::parse(tier).expect("tier"),
                seed.parse().expect("seed"),
                start.parse().expect("start"),
                step.parse().expect("step"),
                end.parse().expect("end"),
            );
            0
        }
        ["--dump", file] => {
            props_sim::dump(file);
            0
        }
        ["--minimise", inp, out, trying] => sup::minimise_file(inp, out, trying, &engine_for),
        ["--replay", file] => sup::replay_file(file, false, &engine_for),
        ["--replay", file, "--quiet"] => sup::replay_file(file, true, &engine_for),
        _ => {
            eprintln!("usage: mbn-dst check <property> <quick|thorough> | --replay <file>");
            2
        }
    };
    std::process::exit(code);
}

//! Engine D: adversarial randomness against distribution sampling (C13). The
//! random-source seam is driven by a scripted prefix of extreme words followed
//! by a fair seeded stream; the distribution is sampled directly and through
//! the framework's consumers (timeout, duration, limit, counter value).

use crate::common::*;
use crate::fwsim::{ActionRec, Ev};
use crate::mach::wild_dist;
use crate::sup::{catch_sut, panic_class, Engine, EngineInfo, Stats, Tier, Violation};
use enum_map::enum_map;
use maybenot::action::Action;
use maybenot::counter::{Counter, Operation};
use maybenot::dist::{Dist, DistType};
use maybenot::event::Event;
use maybenot::state::{State, Trans};
use maybenot::{Framework, Machine};
use serde_json::{json, Value};

pub struct C13;

#[derive(Clone, Debug)]
struct Case {
    dist: Dist,
    prefix: Vec<u64>,
    seed: u64,
    samples: usize,
}

fn dist_json(d: &Dist) -> Value {
    json!({
        "words": crate::mach::enc_dist(d),
        "readable": format!("{:?}", d),
    })
}
fn dist_from(v: &Value) -> Option<Dist> {
    if let Some(w) = v["words"].as_str() {
        return crate::mach::dec_dist(w);
    }
    // files written before the structural format
    bincode::deserialize(&hex::decode(v["bincode_hex"].as_str()?).ok()?).ok()
}
fn case_json(c: &Case) -> Value {
    json!({"dist": dist_json(&c.dist), "prefix": c.prefix, "seed": c.seed, "samples": c.samples})
}
fn case_from(v: &Value) -> Option<Case> {
    Some(Case {
        dist: dist_from(&v["dist"])?,
        prefix: serde_json::from_value(v["prefix"].clone()).ok()?,
        seed: v["seed"].as_u64()?,
        samples: v["samples"].as_u64()? as usize,
    })
}

fn is_binv(d: &Dist) -> bool {
    match d.dist {
        DistType::Binomial {
            trials,
            probability,
        } => {
            let p = probability.min(1.0 - probability);
            probability != 0.0
                && probability != 1.0
                && (trials as f64) * p < 10.0
                && trials <= i32::MAX as u64
        }
        _ => false,
    }
}
fn is_binomial(d: &Dist) -> bool {
    matches!(d.dist, DistType::Binomial { .. })
}

fn random_dist(g: &mut Gen) -> Dist {
    // random (non-corner) parameters of every family
    for _ in 0..100 {
        let f = |g: &mut Gen| -> f64 {
            let e = g.range(0, 12) as i32 - 6;
            g.f01() * 10f64.powi(e)
        };
        let dt = match g.below(11) {
            0 => {
                let a = f(g);
                let b = a + f(g);
                DistType::Uniform { low: a, high: b }
            }
            1 => DistType::Normal {
                mean: f(g),
                stdev: f(g),
            },
            2 => DistType::SkewNormal {
                location: f(g),
                scale: f(g),
                shape: f(g) - f(g),
            },
            3 => DistType::LogNormal {
                mu: f(g).ln().max(-50.0).min(50.0),
                sigma: g.f01() * 5.0,
            },
            4 => DistType::Binomial {
                trials: g.below(1_000_000_001),
                probability: g.f01(),
            },
            5 => DistType::Geometric {
                probability: g.f01().max(1e-9),
            },
            6 => DistType::Pareto {
                scale: f(g),
                shape: g.f01() * 5.0 + 1e-3,
            },
            7 => DistType::Poisson { lambda: f(g) * 1e6 },
            8 => DistType::Weibull {
                scale: f(g),
                shape: g.f01() * 5.0 + 1e-3,
            },
            9 => DistType::Gamma {
                scale: f(g),
                shape: g.f01() * 50.0 + 1e-3,
            },
            _ => DistType::Beta {
                alpha: g.f01() * 50.0 + 1e-3,
                beta: g.f01() * 50.0 + 1e-3,
            },
        };
        let d = Dist::new(
            dt,
            if g.chance(0.2) { f(g) } else { 0.0 },
            if g.chance(0.2) { f(g) } else { 0.0 },
        );
        if d.validate().is_ok() {
            return d;
        }
    }
    wild_dist(g)
}

fn gen_prefix(g: &mut Gen, high_extreme_ok: bool) -> Vec<u64> {
    if g.chance(0.15) {
        return vec![];
    }
    let n = 1 + g.usize(64);
    let style = g.below(8);
    (0..n)
        .map(|i| match style {
            0 => 0,
            1 if high_extreme_ok => u64::MAX,
            2 if high_extreme_ok => {
                if i % 2 == 0 {
                    0
                } else {
                    u64::MAX
                }
            }
            3 => 0x1ff,
            4 => 1 << 63,
            5 if high_extreme_ok => *g.pick(&[
                0xffff_ffff_ff00_0000,
                u64::MAX - 1,
                u64::MAX << 11,
                u64::MAX << 12,
                0xffff_ffff_0000_0000,
            ]),
            6 => *g.pick(&[
                0,
                1,
                0x800,
                0x1000,
                1 << 11,
                1 << 12,
                1 << 32,
                (1 << 32) - 1,
                0x1ff,
            ]),
            _ => {
                if high_extreme_ok {
                    *g.pick(&[
                        0,
                        u64::MAX,
                        0xffff_ffff_ff00_0000,
                        1,
                        0x8000_0000_0000_0000,
                        0x1ff,
                        1 << 52,
                    ])
                } else {
                    let r = g.u64() >> 1;
                    *g.pick(&[0, 1, 0x8000_0000_0000_0000, 0x1ff, 1 << 52, r])
                }
            }
        })
        .collect()
}

/// a distribution that validation rejects (used only inside machines: if machine
/// validation lets it through anywhere, running that machine must still not crash)
pub fn rejected_dist(g: &mut Gen) -> Dist {
    for _ in 0..200 {
        let d = hostile_candidate(g);
        if d.validate().is_err() {
            return d;
        }
    }
    Dist::new(DistType::Uniform { low: 2.0, high: 1.0 }, 0.0, 0.0)
}

/// one distribution with hostile parameters (NaN, infinities, negative, huge), NOT filtered by
/// validation: whatever validation lets through is sampled like any other validated distribution
pub fn hostile_candidate(g: &mut Gen) -> Dist {
    let bad = |g: &mut Gen| -> f64 {
        *g.pick(&[f64::NAN, f64::INFINITY, f64::NEG_INFINITY, -1.0, 0.0, 1e300, -1e300, 2.0, 1e43])
    };
    let dt = match g.below(11) {
        0 => {
            let a = bad(g);
            DistType::Uniform { low: a, high: if g.bool() { a - 1.0 } else { bad(g) } }
        }
        1 => DistType::Normal { mean: bad(g), stdev: bad(g) },
        2 => DistType::SkewNormal { location: bad(g), scale: bad(g), shape: bad(g) },
        3 => DistType::LogNormal { mu: bad(g), sigma: bad(g) },
        4 => DistType::Binomial { trials: *g.pick(&[2_000_000_000u64, u64::MAX, 10]), probability: *g.pick(&[1e-12, 2.0, -0.5, f64::NAN]) },
        5 => DistType::Geometric { probability: *g.pick(&[1e-12, 2.0, -0.5, f64::NAN]) },
        6 => DistType::Pareto { scale: bad(g), shape: bad(g) },
        7 => DistType::Poisson { lambda: *g.pick(&[f64::INFINITY, 1e43, -1.0, 0.0, f64::NAN]) },
        8 => DistType::Weibull { scale: bad(g), shape: bad(g) },
        9 => DistType::Gamma { scale: bad(g), shape: bad(g) },
        _ => DistType::Beta { alpha: bad(g), beta: bad(g) },
    };
    Dist::new(dt, 0.0, 0.0)
}

fn gen_case(g: &mut Gen) -> Case {
    if g.chance(0.08) {
        return Case {
            dist: if g.bool() { rejected_dist(g) } else { hostile_candidate(g) },
            prefix: vec![],
            seed: g.u64(),
            samples: 4,
        };
    }
    let dist = if g.chance(0.65) {
        wild_dist(g)
    } else {
        random_dist(g)
    };
    // D5 is a known finding: its trigger (BINV path x draws next to 1) is still
    // generated, but rarely, so that the budget goes to everything else
    let high_ok = !is_binv(&dist) || g.chance(0.04);
    Case {
        dist,
        prefix: gen_prefix(g, high_ok),
        seed: g.u64(),
        samples: 4 + g.usize(12),
    }
}

fn consumer_machine(d: Dist, which: u64) -> Option<Machine> {
    let mut s = State::new(enum_map! { Event::NormalRecv => vec![Trans(0, 1.0)], _ => vec![] });
    match which {
        0 => {
            s.action = Some(Action::SendPadding {
                bypass: false,
                replace: false,
                timeout: d,
                limit: None,
            })
        }
        1 => {
            s.action = Some(Action::BlockOutgoing {
                bypass: false,
                replace: true,
                timeout: d,
                duration: d,
                limit: Some(d),
            })
        }
        2 => {
            s.action = Some(Action::UpdateTimer {
                replace: true,
                duration: d,
                limit: Some(d),
            })
        }
        3 => {
            s.counter = (
                Some(Counter::new_dist(Operation::Increment, d)),
                Some(Counter::new_dist(Operation::Set, d)),
            );
        }
        4 => s.counter = (Some(Counter::new_dist(Operation::Set, d)), None),
        5 => s.counter = (None, Some(Counter::new_dist(Operation::Increment, d))),
        6 => {
            s.action = Some(Action::SendPadding {
                bypass: true,
                replace: true,
                timeout: crate::mach::cdist(1.0),
                limit: Some(d),
            })
        }
        _ => {
            s.action = Some(Action::BlockOutgoing {
                bypass: true,
                replace: false,
                timeout: crate::mach::cdist(1.0),
                duration: d,
                limit: None,
            })
        }
    }
    // None = the machine does not pass validation (expected for a rejected distribution)
    Machine::new(u64::MAX, 0.0, u64::MAX, 0.0, vec![s]).ok()
}

const WORD_BUDGET: u64 = 100_000;
const DAY_NS: u128 = 86_400_000_000_000;

impl C13 {
    fn run(&self, c: &Case, stats: &mut Stats) -> Vec<Violation> {
        let mut v = vec![];
        let spec = RngSpec::Script {
            prefix: c.prefix.clone(),
            seed: c.seed,
        };
        let fam = format!("{:?}", c.dist.dist);
        let fam = fam
            .split(|ch| ch == ' ' || ch == '{')
            .next()
            .unwrap_or("")
            .to_string();
        stats.inc(&format!("family.{fam}"));
        if !c.prefix.is_empty() {
            stats.fault("rng_extreme_prefix");
            stats.add("fault.rng_extreme_words", c.prefix.len() as u64);
        }
        stats.probe_if("binomial_inversion_path", is_binv(&c.dist));
        let valid = c.dist.validate().is_ok();
        stats.probe_if("rejected_distribution_offered_to_machine_validation", !valid);
        // ---- direct sampling (only what validation accepts is in scope)
        let mut rng = SimRng::new(&spec);
        let mut max_words = 0;
        for i in 0..(if valid { c.samples } else { 0 }) {
            rng_reset(WORD_BUDGET);
            let r = catch_sut(|| c.dist.sample(&mut rng));
            let w = rng_words();
            rng_reset(u64::MAX);
            max_words = max_words.max(w);
            stats.inc("samples");
            match r {
                Err(p) => {
                    v.push(Violation::new(
                        &panic_class(&p),
                        format!("sample #{i} of {:?} panicked: {p}", c.dist),
                        Some(case_json(c)),
                    ));
                    return v;
                }
                Ok(x) => {
                    stats.probe_if("sample_infinite", x.is_infinite());
                    stats.probe_if("sample_clamped_to_max", c.dist.max > 0.0 && x == c.dist.max);
                    if x.is_nan() || x < 0.0 || (c.dist.max > 0.0 && x > c.dist.max) {
                        v.push(Violation::new(
                            "out-of-range",
                            format!("sample #{i} of {:?} is {x}", c.dist),
                            Some(case_json(c)),
                        ));
                        return v;
                    }
                }
            }
        }
        stats.max("rng_words_per_sample", max_words);
        // ---- through the framework's consumers
        for which in 0..8u64 {
            let Some(m) = consumer_machine(c.dist, which) else {
                stats.probe_if("machine_validation_rejected_bad_distribution", !valid);
                continue;
            };
            if !valid {
                // machine validation let a rejected distribution through: it is now a
                // 'machine that passed validation' and must not crash the framework
                stats.inc("rejected_distribution_accepted_inside_machine");
            }
            let rng = SimRng::new(&spec);
            rng_reset(WORD_BUDGET * 4);
            let r = catch_sut(|| {
                let mut fw =
                    Framework::new(vec![m], 0.0, 0.0, VInstant(0), rng).expect("validated");
                let mut out: Vec<ActionRec> = vec![];
                for k in 0..c.samples.min(6) {
                    out.extend(
                        fw.trigger_events(&[Ev::NR.to_trigger()], VInstant(1000 * k as u64))
                            .map(ActionRec::from),
                    );
                }
                out
            });
            rng_reset(u64::MAX);
            stats.inc("framework_runs");
            match r {
                Err(p) => {
                    v.push(Violation::new(
                        &panic_class(&p),
                        format!(
                            "framework with {:?} as consumer #{which} panicked: {p}",
                            c.dist
                        ),
                        Some(case_json(c)),
                    ));
                    return v;
                }
                Ok(acts) => {
                    if let Some(a) = acts
                        .iter()
                        .find(|a| a.timeout_ns > DAY_NS || a.duration_ns > DAY_NS)
                    {
                        v.push(Violation::new(
                            "consumer-over-24h",
                            format!("{:?} as consumer #{which}: {}", c.dist, a.short()),
                            Some(case_json(c)),
                        ));
                        return v;
                    }
                }
            }
        }
        let mut h = Fnv::default();
        h.bytes(&bincode::serialize(&c.dist).unwrap());
        h.u64(c.prefix.len() as u64);
        h.u64(c.prefix.first().copied().unwrap_or(7));
        if !c.prefix.is_empty() && valid {
            stats.shapes.insert(h.0);
        }
        v
    }
}

impl Engine for C13 {
    fn info(&self) -> EngineInfo {
        EngineInfo {
            property: "C13",
            engine: "distsim",
            level: "exploration",
            rule: "8% of the cases carry hostile parameters (NaN, infinities, negative, huge): half of them filtered to what validation rejects (offered to machine validation, never sampled), half unfiltered (sampled like any other if validation accepts them); otherwise case = one validated distribution (65% from the corner generator: all 11 families at the bounds validation admits - probability 1e-9 / 1-1e-9, 1e9 trials, lambda 1e42, subnormal and 1e300 scales/shapes, low==high, adjacent floats, start/max NaN, +-inf, negative - 35% random parameters) x random source = scripted prefix of 0..64 extreme words (all-zero, all-one, alternating, 0x1ff, 2^63, top-k-bits, low bits) followed by a fair seeded stream; 4..16 samples drawn directly and the same stream through four framework consumers (timeout, timeout+duration+limit, timer duration+limit, counter values); oracle: returns, no panic, value not NaN, >= 0, <= max when max > 0; hang = RNG word budget (100000 per sample) or 2 s CPU per case; distinct = (distribution, prefix length, first word); non-trivial = non-empty scripted prefix".into(),
            assumptions: vec![
                "'a real number' is read as 'not NaN': +infinity is produced by validated LogNormal/Pareto/Weibull/Gamma parameters by construction and every consumer saturates it".into(),
                "the trigger of known finding D5 (Binomial inversion path x draws next to 1) is generated at a reduced rate".into(),
            ],
            real_components: vec![
                "maybenot::dist::Dist::validate / sample",
                "rand_distr 0.4.3 samplers, rand 0.8 uniform",
                "maybenot::action / counter sampling + clamps via Framework::trigger_events",
            ],
            stubbed_components: vec!["random source: SimRng::Script (extreme prefix + seeded Xoshiro256**)"],
            totality: true,
            cpu_limit_s: crate::sup::CASE_CPU_LIMIT_S,
            exhaustive: false,
        }
    }
    fn n_cases(&self, tier: Tier) -> u64 {
        match tier {
            Tier::Quick => 150_000,
            Tier::Thorough => 5_000_000,
        }
    }
    fn run_case(&self, k: u64, seed: u64, _tier: Tier, stats: &mut Stats) -> Vec<Violation> {
        let mut g = Gen::new(seed);
        let c = gen_case(&mut g);
        if k < 3 {
            stats.samples.push(case_json(&c));
        }
        self.run(&c, stats)
    }
    fn replay(&self, case: &Value, stats: &mut Stats) -> Vec<Violation> {
        match case_from(case) {
            Some(c) => self.run(&c, stats),
            None => vec![],
        }
    }
    fn shrink(&self, case: &Value) -> Vec<Value> {
        let Some(c) = case_from(case) else {
            return vec![];
        };
        let mut out = vec![];
        if c.prefix.len() > 1 {
            let mut d = c.clone();
            d.prefix.truncate(c.prefix.len() / 2);
            out.push(d);
            let mut d = c.clone();
            d.prefix.remove(0);
            out.push(d);
            let mut d = c.clone();
            d.prefix.pop();
            out.push(d);
        }
        if c.samples > 1 {
            let mut d = c.clone();
            d.samples = 1;
            out.push(d);
        }
        if c.dist.start != 0.0 {
            let mut d = c.clone();
            d.dist.start = 0.0;
            out.push(d);
        }
        if c.dist.max != 0.0 {
            let mut d = c.clone();
            d.dist.max = 0.0;
            out.push(d);
        }
        if c.seed != 0 {
            let mut d = c.clone();
            d.seed = 0;
            out.push(d);
        }
        out.iter().map(case_json).collect()
    }
    fn known_finding(&self, v: &Violation) -> Option<&'static str> {
        // D9: BTPE assertion in the dependency, Binomial only, scripted prefix only
        if v.class.contains("rand_distr-0.4.3/src/binomial.rs:80") {
            if let Some(c) = v.case.as_ref().and_then(case_from) {
                if is_binomial(&c.dist) && !is_binv(&c.dist) && !c.prefix.is_empty() {
                    return Some("D9");
                }
            }
        }
        None
    }
    fn crash_tag(&self, _k: u64, seed: u64, _tier: Tier) -> Option<String> {
        // D5: the case is regenerated in the worker (a pure function of the seed,
        // nothing is sampled), before it is run
        let mut g = Gen::new(seed);
        let c = gen_case(&mut g);
        (is_binv(&c.dist) && !c.prefix.is_empty()).then(|| "binv-with-scripted-prefix".to_string())
    }
    fn known_finding_crash(&self, kind: &str, tag: Option<&str>) -> Option<&'static str> {
        if kind == "hang" && tag == Some("binv-with-scripted-prefix") {
            Some("D5")
        } else {
            None
        }
    }
}

//! Machine generation, bit-exact encoding for replay files, description and
//! structural shrinking. Machines are only ever built and read through the
//! public API of the maybenot crate.

use crate::common::Gen;
use enum_map::{enum_map, EnumMap};
use maybenot::action::Action;
use maybenot::constants::{STATE_END, STATE_SIGNAL};
use maybenot::counter::{Counter, Operation};
use maybenot::dist::{Dist, DistType};
use maybenot::event::Event;
use maybenot::state::{State, Trans};
use maybenot::{Machine, Timer};

pub const ALL_EVENTS: [Event; 13] = [
    Event::NormalRecv,
    Event::PaddingRecv,
    Event::TunnelRecv,
    Event::NormalSent,
    Event::PaddingSent,
    Event::TunnelSent,
    Event::BlockingBegin,
    Event::BlockingEnd,
    Event::LimitReached,
    Event::CounterZero,
    Event::TimerBegin,
    Event::TimerEnd,
    Event::Signal,
];

// Replay files must not depend on the code under test more than the run itself
// does: a change that breaks the machine (de)serialiser must not make the replay
// file of the violation it causes unreadable. Machines are therefore written
// field by field through the public structures as a list of u64 words (floats
// as their bit patterns), not with the crate's serde implementation.
struct W(Vec<u64>);
impl W {
    fn u(&mut self, v: u64) { self.0.push(v); }
    fn b(&mut self, v: bool) { self.0.push(v as u64); }
    fn f(&mut self, v: f64) { self.0.push(v.to_bits()); }
    fn dist(&mut self, d: &Dist) {
        match d.dist {
            DistType::Uniform { low, high } => { self.u(0); self.f(low); self.f(high); }
            DistType::Normal { mean, stdev } => { self.u(1); self.f(mean); self.f(stdev); }
            DistType::SkewNormal { location, scale, shape } => { self.u(2); self.f(location); self.f(scale); self.f(shape); }
            DistType::LogNormal { mu, sigma } => { self.u(3); self.f(mu); self.f(sigma); }
            DistType::Binomial { trials, probability } => { self.u(4); self.u(trials); self.f(probability); }
            DistType::Geometric { probability } => { self.u(5); self.f(probability); }
            DistType::Pareto { scale, shape } => { self.u(6); self.f(scale); self.f(shape); }
            DistType::Poisson { lambda } => { self.u(7); self.f(lambda); }
            DistType::Weibull { scale, shape } => { self.u(8); self.f(scale); self.f(shape); }
            DistType::Gamma { scale, shape } => { self.u(9); self.f(scale); self.f(shape); }
            DistType::Beta { alpha, beta } => { self.u(10); self.f(alpha); self.f(beta); }
        }
        self.f(d.start);
        self.f(d.max);
    }
    fn odist(&mut self, d: &Option<Dist>) {
        match d { Some(d) => { self.u(1); self.dist(d); } None => self.u(0) }
    }
    fn counter(&mut self, c: &Option<Counter>) {
        match c {
            None => self.u(0),
            Some(c) => {
                self.u(1);
                self.u(match c.operation { Operation::Increment => 0, Operation::Decrement => 1, Operation::Set => 2 });
                self.b(c.copy);
                self.odist(&c.dist);
            }
        }
    }
}
struct Rd<'a>(&'a [u64], usize);
impl Rd<'_> {
    fn u(&mut self) -> Option<u64> { let v = *self.0.get(self.1)?; self.1 += 1; Some(v) }
    fn b(&mut self) -> Option<bool> { Some(self.u()? != 0) }
    fn f(&mut self) -> Option<f64> { Some(f64::from_bits(self.u()?)) }
    fn dist(&mut self) -> Option<Dist> {
        let dist = match self.u()? {
            0 => DistType::Uniform { low: self.f()?, high: self.f()? },
            1 => DistType::Normal { mean: self.f()?, stdev: self.f()? },
            2 => DistType::SkewNormal { location: self.f()?, scale: self.f()?, shape: self.f()? },
            3 => DistType::LogNormal { mu: self.f()?, sigma: self.f()? },
            4 => DistType::Binomial { trials: self.u()?, probability: self.f()? },
            5 => DistType::Geometric { probability: self.f()? },
            6 => DistType::Pareto { scale: self.f()?, shape: self.f()? },
            7 => DistType::Poisson { lambda: self.f()? },
            8 => DistType::Weibull { scale: self.f()?, shape: self.f()? },
            9 => DistType::Gamma { scale: self.f()?, shape: self.f()? },
            10 => DistType::Beta { alpha: self.f()?, beta: self.f()? },
            _ => return None,
        };
        Some(Dist { dist, start: self.f()?, max: self.f()? })
    }
    fn odist(&mut self) -> Option<Option<Dist>> {
        Some(if self.u()? != 0 { Some(self.dist()?) } else { None })
    }
    fn counter(&mut self) -> Option<Option<Counter>> {
        if self.u()? == 0 { return Some(None); }
        let operation = match self.u()? { 0 => Operation::Increment, 1 => Operation::Decrement, 2 => Operation::Set, _ => return None };
        let copy = self.b()?;
        let dist = self.odist()?;
        Some(Some(Counter { operation, dist, copy }))
    }
}

pub fn enc_dist(d: &Dist) -> String {
    let mut w = W(Vec::new());
    w.dist(d);
    let words: Vec<String> = w.0.iter().map(|v| format!("{v:x}")).collect();
    format!("d1:{}", words.join(","))
}
pub fn dec_dist(s: &str) -> Option<Dist> {
    let words: Vec<u64> = s
        .strip_prefix("d1:")?
        .split(',')
        .map(|t| u64::from_str_radix(t, 16).ok())
        .collect::<Option<_>>()?;
    let mut r = Rd(&words, 0);
    let d = r.dist()?;
    (r.1 == words.len()).then_some(d)
}

pub fn enc(m: &Machine) -> String {
    let mut w = W(Vec::new());
    w.u(m.allowed_padding_packets);
    w.f(m.max_padding_frac);
    w.u(m.allowed_blocked_microsec);
    w.f(m.max_blocking_frac);
    w.u(m.states.len() as u64);
    for s in &m.states {
        match &s.action {
            None => w.u(0),
            Some(Action::Cancel { timer }) => {
                w.u(1);
                w.u(match timer { Timer::Action => 0, Timer::Internal => 1, Timer::All => 2 });
            }
            Some(Action::SendPadding { bypass, replace, timeout, limit }) => {
                w.u(2); w.b(*bypass); w.b(*replace); w.dist(timeout); w.odist(limit);
            }
            Some(Action::BlockOutgoing { bypass, replace, timeout, duration, limit }) => {
                w.u(3); w.b(*bypass); w.b(*replace); w.dist(timeout); w.dist(duration); w.odist(limit);
            }
            Some(Action::UpdateTimer { replace, duration, limit }) => {
                w.u(4); w.b(*replace); w.dist(duration); w.odist(limit);
            }
        }
        w.counter(&s.counter.0);
        w.counter(&s.counter.1);
        let t = s.get_transitions();
        for e in ALL_EVENTS {
            w.u(t[e].len() as u64);
            for Trans(to, p) in &t[e] {
                w.u(*to as u64);
                w.u(p.to_bits() as u64);
            }
        }
    }
    let words: Vec<String> = w.0.iter().map(|v| format!("{v:x}")).collect();
    format!("m1:{}", words.join(","))
}
pub fn dec(s: &str) -> Option<Machine> {
    let Some(body) = s.strip_prefix("m1:") else {
        // files written before the structural format: hex of the crate's bincode
        return bincode::deserialize(&hex::decode(s).ok()?).ok();
    };
    let words: Vec<u64> = body
        .split(',')
        .map(|t| u64::from_str_radix(t, 16).ok())
        .collect::<Option<_>>()?;
    let mut r = Rd(&words, 0);
    let allowed_padding_packets = r.u()?;
    let max_padding_frac = r.f()?;
    let allowed_blocked_microsec = r.u()?;
    let max_blocking_frac = r.f()?;
    let n = r.u()? as usize;
    let mut states = Vec::new();
    for _ in 0..n {
        let action = match r.u()? {
            0 => None,
            1 => Some(Action::Cancel {
                timer: match r.u()? { 0 => Timer::Action, 1 => Timer::Internal, 2 => Timer::All, _ => return None },
            }),
            2 => Some(Action::SendPadding { bypass: r.b()?, replace: r.b()?, timeout: r.dist()?, limit: r.odist()? }),
            3 => Some(Action::BlockOutgoing { bypass: r.b()?, replace: r.b()?, timeout: r.dist()?, duration: r.dist()?, limit: r.odist()? }),
            4 => Some(Action::UpdateTimer { replace: r.b()?, duration: r.dist()?, limit: r.odist()? }),
            _ => return None,
        };
        let c0 = r.counter()?;
        let c1 = r.counter()?;
        let mut t: EnumMap<Event, Vec<Trans>> = enum_map! { _ => vec![] };
        for e in ALL_EVENTS {
            let k = r.u()? as usize;
            for _ in 0..k {
                let to = r.u()? as usize;
                let p = f32::from_bits(r.u()? as u32);
                t[e].push(Trans(to, p));
            }
        }
        let mut st = State::new(t);
        st.action = action;
        st.counter = (c0, c1);
        states.push(st);
    }
    if r.1 != words.len() { return None; }
    Some(Machine { allowed_padding_packets, max_padding_frac, allowed_blocked_microsec, max_blocking_frac, states })
}
pub fn enc_all(ms: &[Machine]) -> Vec<String> {
    ms.iter().map(enc).collect()
}
pub fn dec_all(v: &serde_json::Value) -> Option<Vec<Machine>> {
    v.as_array()?
        .iter()
        .map(|s| s.as_str().and_then(dec))
        .collect()
}

pub fn cdist(v: f64) -> Dist {
    Dist::new(DistType::Uniform { low: v, high: v }, 0.0, 0.0)
}
/// constant distribution that, one time in four, carries a start offset and / or
/// a maximum: the value is still a constant, so the reference semantics computes
/// it from the documented rule (start added, clamped to [0, max]) without
/// consulting the crate's sampler
pub fn cdist_off(g: &mut Gen, v: f64) -> Dist {
    if g.chance(0.75) {
        return cdist(v);
    }
    let start = *g.pick(&[0.0, 1.0, 250.0, 1e6, 0.5]);
    let max = *g.pick(&[0.0, 0.0, 0.4, 700.0, 2e6]);
    Dist::new(DistType::Uniform { low: v, high: v }, start, max)
}
pub fn udist(lo: f64, hi: f64) -> Dist {
    Dist::new(DistType::Uniform { low: lo, high: hi }, 0.0, 0.0)
}

fn tname(t: usize) -> String {
    match t {
        STATE_END => "END".into(),
        STATE_SIGNAL => "SIG".into(),
        x => x.to_string(),
    }
}

fn dname(d: &Dist) -> String {
    let base = match d.dist {
        DistType::Uniform { low, high } if low == high => format!("{low}"),
        other => format!("{other:?}"),
    };
    if d.start != 0.0 || d.max != 0.0 {
        format!("{base}[start {} max {}]", d.start, d.max)
    } else {
        base
    }
}

/// Compact human-readable description (for evidence samples and replay files).
pub fn describe(m: &Machine) -> String {
    let mut s = format!(
        "budget(pad {} frac {} | block {}us frac {})",
        m.allowed_padding_packets,
        m.max_padding_frac,
        m.allowed_blocked_microsec,
        m.max_blocking_frac
    );
    for (i, st) in m.states.iter().enumerate() {
        s += &format!(" S{i}{{");
        match st.action {
            None => {}
            Some(Action::Cancel { timer }) => s += &format!("Cancel({timer:?})"),
            Some(Action::SendPadding {
                bypass,
                replace,
                timeout,
                limit,
            }) => {
                s += &format!(
                    "Pad(b{} r{} to {} lim {})",
                    bypass as u8,
                    replace as u8,
                    dname(&timeout),
                    limit.map(|l| dname(&l)).unwrap_or("-".into())
                )
            }
            Some(Action::BlockOutgoing {
                bypass,
                replace,
                timeout,
                duration,
                limit,
            }) => {
                s += &format!(
                    "Block(b{} r{} to {} dur {} lim {})",
                    bypass as u8,
                    replace as u8,
                    dname(&timeout),
                    dname(&duration),
                    limit.map(|l| dname(&l)).unwrap_or("-".into())
                )
            }
            Some(Action::UpdateTimer {
                replace,
                duration,
                limit,
            }) => {
                s += &format!(
                    "Timer(r{} dur {} lim {})",
                    replace as u8,
                    dname(&duration),
                    limit.map(|l| dname(&l)).unwrap_or("-".into())
                )
            }
        }
        for (n, c) in [("A", st.counter.0), ("B", st.counter.1)] {
            if let Some(c) = c {
                s += &format!(
                    " {n}:{:?}{}",
                    c.operation,
                    if c.copy {
                        "(copy)".to_string()
                    } else {
                        c.dist
                            .map(|d| format!("({})", dname(&d)))
                            .unwrap_or_default()
                    }
                );
            }
        }
        let tr = st.get_transitions();
        for e in ALL_EVENTS {
            if !tr[e].is_empty() {
                s += &format!(
                    " {e:?}->{}",
                    tr[e]
                        .iter()
                        .map(|t| if t.1 == 1.0 {
                            tname(t.0)
                        } else {
                            format!("{}@{}", tname(t.0), t.1)
                        })
                        .collect::<Vec<_>>()
                        .join("|")
                );
            }
        }
        s += "}";
    }
    s
}

// ---------------------------------------------------------------------------
// generation

#[derive(Clone, Copy, PartialEq, Eq, Debug)]
pub enum Family {
    /// probability-1 transitions, constant distributions: no randomness used
    Det,
    /// probabilities k/64, Uniform or constant distributions
    Dyadic,
    /// everything validation admits
    Wild,
}

#[derive(Clone)]
pub struct MachCfg {
    pub family: Family,
    pub max_states: usize,
    /// probability that a (state, event) pair has transitions
    pub p_trans: f64,
    pub p_end: f64,
    pub p_signal: f64,
    /// weights: none, cancel, padding, blocking, timer
    pub action_w: [u32; 5],
    pub p_limit: f64,
    pub p_counter: f64,
    /// events on which transitions are generated
    pub events: Vec<Event>,
    pub pad_budgets: Vec<u64>,
    pub block_budgets: Vec<u64>,
    pub fracs: Vec<f64>,
    /// timeouts/durations in microseconds to draw constants from
    pub times_us: Vec<f64>,
    pub limits: Vec<f64>,
}

impl MachCfg {
    pub fn new(family: Family) -> MachCfg {
        MachCfg {
            family,
            max_states: 4,
            p_trans: 0.35,
            p_end: 0.03,
            p_signal: 0.05,
            action_w: [2, 1, 4, 3, 2],
            p_limit: 0.4,
            p_counter: 0.3,
            events: ALL_EVENTS.to_vec(),
            pad_budgets: vec![0, 0, 1, 2, 5, 1000, u64::MAX],
            block_budgets: vec![0, 0, 1, 1000, 1_000_000, u64::MAX],
            fracs: vec![0.0, 0.0, 0.25, 0.5, 1.0 / 3.0, 1.0, 1.0 / 1048576.0],
            times_us: vec![0.0, 0.0, 1.0, 10.0, 1000.0, 50_000.0, 2_000_000.0],
            limits: vec![0.0, 1.0, 1.0, 2.0, 3.0, 4.0],
        }
    }
}

fn wild_f(g: &mut Gen) -> f64 {
    // 12..15: values validation must turn away wherever a parameter has to be
    // finite / positive; they reach the sampler only if validation is relaxed
    match g.below(16) {
        12 => f64::NAN,
        13 => f64::INFINITY,
        14 => -1.0,
        15 => -1e-300,
        0 => 0.0,
        1 => 1.0,
        2 => 0.5,
        3 => 1e-9,
        4 => 1e9,
        5 => 1e42,
        6 => f64::MIN_POSITIVE,
        7 => 1e300,
        8 => 5e-324,
        9 => 1e-3,
        10 => g.f01() * 100.0,
        _ => g.f01(),
    }
}

/// A distribution validation accepts, drawn from all 11 families including the
/// corners validation admits.
pub fn wild_dist(g: &mut Gen) -> Dist {
    for _ in 0..200 {
        let dt = match g.below(11) {
            0 => {
                let a = wild_f(g) * if g.chance(0.2) { -1.0 } else { 1.0 };
                let b = wild_f(g);
                let (lo, hi) = if a <= b { (a, b) } else { (b, a) };
                if g.chance(0.12) {
                    // ranges at and beyond the limit of what validation admits
                    // (high - low must stay finite)
                    let ends = [
                        0.0,
                        f64::MAX,
                        -f64::MAX,
                        f64::MAX / 2.0,
                        -f64::MAX / 2.0,
                        1e308,
                        -1e308,
                        8.98846567431158e307,
                    ];
                    let x = *g.pick(&ends);
                    let y = *g.pick(&ends);
                    DistType::Uniform { low: x.min(y), high: x.max(y) }
                } else if g.chance(0.3) {
                    DistType::Uniform { low: lo, high: lo }
                } else if g.chance(0.1) {
                    // adjacent floats
                    DistType::Uniform {
                        low: lo,
                        high: f64::from_bits(lo.to_bits().wrapping_add(1)),
                    }
                } else {
                    DistType::Uniform { low: lo, high: hi }
                }
            }
            1 => DistType::Normal {
                mean: match g.below(8) {
                    0 => f64::NAN,
                    1 => f64::INFINITY,
                    2 => f64::NEG_INFINITY,
                    3 => -wild_f(g),
                    _ => wild_f(g),
                },
                stdev: wild_f(g),
            },
            2 => DistType::SkewNormal {
                location: if g.chance(0.2) { -wild_f(g) } else { wild_f(g) },
                scale: wild_f(g),
                shape: if g.chance(0.3) { -wild_f(g) } else { wild_f(g) },
            },
            3 => DistType::LogNormal {
                mu: if g.chance(0.2) { -wild_f(g) } else { wild_f(g) },
                sigma: wild_f(g),
            },
            4 => DistType::Binomial {
                // candidates reach one step beyond every limit validation sets
                // (trials 1e9, probability 1e-9): on the unchanged tree those are
                // filtered out below, a relaxed validation lets them through to
                // the sampler
                trials: *g.pick(&[
                    0, 1, 2, 10, 1000, 1_000_000, 1_000_000_000, 999_999_999,
                    1_000_000_001, 0x7fff_ffff, 0x8000_0000, 0x8000_0001, 3_000_000_000,
                    1 << 32, 1 << 53, u64::MAX - 1, u64::MAX,
                ]),
                probability: *g.pick(&[
                    0.0, 1e-9, 1e-6, 0.001, 0.3, 0.5, 0.9, 1.0 - 1e-9, 1.0, 1e-10, 5e-324,
                    1.0 - 1e-12,
                ]),
            },
            5 => DistType::Geometric {
                probability: *g.pick(&[
                    0.0, 1e-9, 1e-6, 0.001, 0.3, 0.5, 0.999999, 1.0, 1e-10, 1e-15, 5e-324,
                ]),
            },
            6 => DistType::Pareto {
                scale: wild_f(g),
                shape: wild_f(g),
            },
            7 => DistType::Poisson { lambda: wild_f(g) },
            8 => DistType::Weibull {
                scale: wild_f(g),
                shape: wild_f(g),
            },
            9 => DistType::Gamma {
                scale: wild_f(g),
                shape: wild_f(g),
            },
            _ => DistType::Beta {
                alpha: wild_f(g),
                beta: wild_f(g),
            },
        };
        let start = match g.below(12) {
            0 => f64::NAN,
            1 => f64::INFINITY,
            2 => f64::NEG_INFINITY,
            3 => -5.0,
            4 => 3.0,
            5 => 1e18,
            _ => 0.0,
        };
        let max = match g.below(12) {
            0 => f64::NAN,
            1 => f64::INFINITY,
            2 => -1.0,
            3 => 7.0,
            4 => 1e6,
            5 => 0.5,
            _ => 0.0,
        };
        let d = Dist::new(dt, start, max);
        if d.validate().is_ok() {
            return d;
        }
    }
    cdist(1.0)
}

fn gen_time_dist(g: &mut Gen, cfg: &MachCfg) -> Dist {
    match cfg.family {
        Family::Det => {
            let v = *g.pick(&cfg.times_us);
            cdist_off(g, v)
        }
        Family::Dyadic => {
            if g.chance(0.5) {
                cdist(*g.pick(&cfg.times_us))
            } else {
                let a = *g.pick(&cfg.times_us);
                let b = *g.pick(&cfg.times_us);
                udist(a.min(b), a.max(b))
            }
        }
        Family::Wild => match g.below(4) {
            0 => cdist(*g.pick(&cfg.times_us)),
            1 => {
                // heavy tails for the 24h clamp
                *g.pick(&[
                    Dist::new(
                        DistType::Pareto {
                            scale: 1e9,
                            shape: 0.1,
                        },
                        0.0,
                        0.0,
                    ),
                    Dist::new(
                        DistType::LogNormal {
                            mu: 40.0,
                            sigma: 10.0,
                        },
                        0.0,
                        0.0,
                    ),
                    Dist::new(
                        DistType::Uniform {
                            low: 0.0,
                            high: 1e300,
                        },
                        0.0,
                        0.0,
                    ),
                    Dist::new(
                        DistType::Weibull {
                            scale: 1e15,
                            shape: 0.2,
                        },
                        0.0,
                        0.0,
                    ),
                    cdist(f64::MAX),
                    cdist(86_400_000_000.0),
                    cdist(86_400_000_001.0),
                ])
            }
            _ => wild_dist(g),
        },
    }
}

fn gen_limit_dist(g: &mut Gen, cfg: &MachCfg) -> Dist {
    match cfg.family {
        Family::Det => {
            let v = *g.pick(&cfg.limits);
            cdist_off(g, v)
        }
        Family::Dyadic => {
            if g.chance(0.6) {
                cdist(*g.pick(&cfg.limits))
            } else {
                udist(0.0, 5.0)
            }
        }
        Family::Wild => match g.below(4) {
            0 | 1 => cdist(*g.pick(&cfg.limits)),
            2 => udist(0.0, 5.0),
            _ => wild_dist(g),
        },
    }
}

fn gen_counter_dist(g: &mut Gen, cfg: &MachCfg) -> Dist {
    let vals = [
        0.0,
        1.0,
        1.0,
        2.0,
        3.0,
        1.8e19,
        1.9e19,
        1.8446744073709552e19,
        9.3e18,
    ];
    match cfg.family {
        Family::Det => {
            let v = *g.pick(&vals);
            cdist_off(g, v)
        }
        Family::Dyadic => {
            if g.chance(0.6) {
                cdist(*g.pick(&vals))
            } else {
                udist(0.0, 4.0)
            }
        }
        Family::Wild => match g.below(4) {
            0 | 1 => cdist(*g.pick(&vals)),
            2 => udist(0.0, 4.0),
            _ => wild_dist(g),
        },
    }
}

pub fn gen_action(g: &mut Gen, cfg: &MachCfg) -> Option<Action> {
    let tot: u32 = cfg.action_w.iter().sum();
    let mut r = g.below(tot as u64) as u32;
    let mut kind = 0;
    for (i, w) in cfg.action_w.iter().enumerate() {
        if r < *w {
            kind = i;
            break;
        }
        r -= *w;
    }
    let limit = if g.chance(cfg.p_limit) {
        Some(gen_limit_dist(g, cfg))
    } else {
        None
    };
    match kind {
        0 => None,
        1 => Some(Action::Cancel {
            timer: *g.pick(&[Timer::Action, Timer::Internal, Timer::All]),
        }),
        2 => Some(Action::SendPadding {
            bypass: g.bool(),
            replace: g.bool(),
            timeout: gen_time_dist(g, cfg),
            limit,
        }),
        3 => Some(Action::BlockOutgoing {
            bypass: g.bool(),
            replace: g.bool(),
            timeout: gen_time_dist(g, cfg),
            duration: gen_time_dist(g, cfg),
            limit,
        }),
        _ => Some(Action::UpdateTimer {
            replace: g.bool(),
            duration: gen_time_dist(g, cfg),
            limit,
        }),
    }
}

pub fn gen_counter(g: &mut Gen, cfg: &MachCfg) -> Option<Counter> {
    if !g.chance(cfg.p_counter) {
        return None;
    }
    let op = *g.pick(&[Operation::Increment, Operation::Decrement, Operation::Set]);
    Some(match g.below(7) {
        0 | 1 => Counter::new(op),
        2 | 3 => Counter::new_copy(op),
        // both set: only reachable through the public fields or a parsed machine;
        // the documented rule is that copy supersedes the distribution
        4 => Counter {
            operation: op,
            dist: Some(gen_counter_dist(g, cfg)),
            copy: true,
        },
        _ => Counter::new_dist(op, gen_counter_dist(g, cfg)),
    })
}

fn gen_trans(g: &mut Gen, cfg: &MachCfg, n: usize) -> Vec<Trans> {
    let target = |g: &mut Gen| -> usize {
        if g.chance(cfg.p_end) {
            STATE_END
        } else if g.chance(cfg.p_signal) {
            STATE_SIGNAL
        } else {
            g.usize(n)
        }
    };
    match cfg.family {
        Family::Det => vec![Trans(target(g), 1.0)],
        Family::Dyadic | Family::Wild => {
            let k = 1 + g.usize(3);
            let mut ts: Vec<usize> = vec![];
            for _ in 0..k {
                let t = target(g);
                if !ts.contains(&t) {
                    ts.push(t);
                }
            }
            if cfg.family == Family::Dyadic {
                // 64ths, sum <= 64
                let mut left = 64u32;
                let mut v = vec![];
                for (i, t) in ts.iter().enumerate() {
                    let remaining_targets = (ts.len() - i - 1) as u32;
                    let maxp = left - remaining_targets;
                    let p = if i + 1 == ts.len() && g.chance(0.5) {
                        maxp
                    } else {
                        1 + g.below(maxp as u64) as u32
                    };
                    left -= p;
                    v.push(Trans(*t, p as f32 / 64.0));
                }
                v
            } else {
                // arbitrary f32 probabilities; total <= 1 in f32 summation
                loop {
                    let total: f32 = if g.chance(0.4) { 1.0 } else { g.f01() as f32 };
                    let mut ws: Vec<f32> = ts.iter().map(|_| (g.f01() as f32).max(1e-6)).collect();
                    let s: f32 = ws.iter().sum();
                    for w in ws.iter_mut() {
                        *w = (*w / s * total).max(f32::MIN_POSITIVE);
                    }
                    let mut sum = 0f32;
                    for w in &ws {
                        sum += *w;
                    }
                    if sum > 0.0 && sum <= 1.0 && ws.iter().all(|w| *w > 0.0 && *w <= 1.0) {
                        return ts.iter().zip(ws).map(|(t, w)| Trans(*t, w)).collect();
                    }
                    if ts.len() == 1 {
                        return vec![Trans(ts[0], 1.0)];
                    }
                }
            }
        }
    }
}

pub fn gen_state(g: &mut Gen, cfg: &MachCfg, n: usize) -> State {
    let mut t: EnumMap<Event, Vec<Trans>> = enum_map! { _ => vec![] };
    for e in &cfg.events {
        if g.chance(cfg.p_trans) {
            t[*e] = gen_trans(g, cfg, n);
        }
    }
    let mut s = State::new(t);
    s.action = gen_action(g, cfg);
    s.counter = (gen_counter(g, cfg), gen_counter(g, cfg));
    s
}

pub fn gen_machine(g: &mut Gen, cfg: &MachCfg) -> Machine {
    for _ in 0..50 {
        let n = 1 + g.usize(cfg.max_states);
        let states: Vec<State> = (0..n).map(|_| gen_state(g, cfg, n)).collect();
        if let Ok(m) = Machine::new(
            *g.pick(&cfg.pad_budgets),
            *g.pick(&cfg.fracs),
            *g.pick(&cfg.block_budgets),
            *g.pick(&cfg.fracs),
            states,
        ) {
            return m;
        }
    }
    // cannot happen for the families above; keep total
    Machine::new(0, 0.0, 0, 0.0, vec![State::new(enum_map! { _ => vec![] })]).unwrap()
}

// ---------------------------------------------------------------------------
// shrinking

fn rebuild_state(st: &State, map: &dyn Fn(usize) -> Option<usize>) -> State {
    let tr = st.get_transitions();
    let mut t: EnumMap<Event, Vec<Trans>> = enum_map! { _ => vec![] };
    for e in ALL_EVENTS {
        for x in &tr[e] {
            let tgt = if x.0 == STATE_END || x.0 == STATE_SIGNAL {
                Some(x.0)
            } else {
                map(x.0)
            };
            if let Some(tg) = tgt {
                if !t[e].iter().any(|y: &Trans| y.0 == tg) {
                    t[e].push(Trans(tg, x.1));
                }
            }
        }
    }
    let mut s = State::new(t);
    s.action = st.action;
    s.counter = st.counter;
    s
}

fn is_const(d: &Dist) -> bool {
    matches!(d.dist, DistType::Uniform { low, high } if low == high)
        && d.start == 0.0
        && d.max == 0.0
}

fn simplify_dist(d: &Dist) -> Option<Dist> {
    if is_const(d) {
        if let DistType::Uniform { low, .. } = d.dist {
            if low != 0.0 && low != 1.0 {
                return Some(cdist(if low > 1.0 { 1.0 } else { 0.0 }));
            }
        }
        None
    } else {
        Some(cdist(1.0))
    }
}

/// Structurally simpler variants of one machine (all of them validate).
pub fn shrink_machine(m: &Machine) -> Vec<Machine> {
    let mut out: Vec<Machine> = vec![];
    let mk = |states: Vec<State>, m: &Machine| {
        Machine::new(
            m.allowed_padding_packets,
            m.max_padding_frac,
            m.allowed_blocked_microsec,
            m.max_blocking_frac,
            states,
        )
        .ok()
    };
    // drop a state (not state 0 unless it is the only way)
    if m.states.len() > 1 {
        for d in (1..m.states.len()).rev() {
            let states: Vec<State> = m
                .states
                .iter()
                .enumerate()
                .filter(|(i, _)| *i != d)
                .map(|(_, s)| {
                    rebuild_state(s, &|t| {
                        if t == d {
                            None
                        } else if t > d {
                            Some(t - 1)
                        } else {
                            Some(t)
                        }
                    })
                })
                .collect();
            if let Some(x) = mk(states, m) {
                out.push(x);
            }
        }
    }
    for (i, st) in m.states.iter().enumerate() {
        // drop all transitions of one event
        let tr = st.get_transitions();
        for e in ALL_EVENTS {
            if tr[e].is_empty() {
                continue;
            }
            let mut t2 = tr.clone();
            t2[e] = vec![];
            let mut s2 = State::new(t2);
            s2.action = st.action;
            s2.counter = st.counter;
            let mut states = m.states.clone();
            states[i] = s2;
            if let Some(x) = mk(states, m) {
                out.push(x);
            }
            // keep only one target with probability 1
            if tr[e].len() > 1 || tr[e][0].1 != 1.0 {
                for x in &tr[e] {
                    let mut t3 = tr.clone();
                    t3[e] = vec![Trans(x.0, 1.0)];
                    let mut s3 = State::new(t3);
                    s3.action = st.action;
                    s3.counter = st.counter;
                    let mut states = m.states.clone();
                    states[i] = s3;
                    if let Some(y) = mk(states, m) {
                        out.push(y);
                    }
                }
            }
        }
        // drop action / counters
        if st.action.is_some() {
            let mut states = m.states.clone();
            states[i].action = None;
            if let Some(x) = mk(states, m) {
                out.push(x);
            }
        }
        if st.counter.0.is_some() {
            let mut states = m.states.clone();
            states[i].counter.0 = None;
            if let Some(x) = mk(states, m) {
                out.push(x);
            }
        }
        if st.counter.1.is_some() {
            let mut states = m.states.clone();
            states[i].counter.1 = None;
            if let Some(x) = mk(states, m) {
                out.push(x);
            }
        }
        // simplify distributions
        let mut push_action = |a: Action| {
            let mut states = m.states.clone();
            states[i].action = Some(a);
            if let Some(x) = mk(states, m) {
                out.push(x);
            }
        };
        match st.action {
            Some(Action::SendPadding {
                bypass,
                replace,
                timeout,
                limit,
            }) => {
                if let Some(t) = simplify_dist(&timeout) {
                    push_action(Action::SendPadding {
                        bypass,
                        replace,
                        timeout: t,
                        limit,
                    });
                }
                if let Some(l) = limit {
                    push_action(Action::SendPadding {
                        bypass,
                        replace,
                        timeout,
                        limit: None,
                    });
                    if let Some(l2) = simplify_dist(&l) {
                        push_action(Action::SendPadding {
                            bypass,
                            replace,
                            timeout,
                            limit: Some(l2),
                        });
                    }
                }
            }
            Some(Action::BlockOutgoing {
                bypass,
                replace,
                timeout,
                duration,
                limit,
            }) => {
                if let Some(t) = simplify_dist(&timeout) {
                    push_action(Action::BlockOutgoing {
                        bypass,
                        replace,
                        timeout: t,
                        duration,
                        limit,
                    });
                }
                if let Some(d) = simplify_dist(&duration) {
                    push_action(Action::BlockOutgoing {
                        bypass,
                        replace,
                        timeout,
                        duration: d,
                        limit,
                    });
                }
                if let Some(l) = limit {
                    push_action(Action::BlockOutgoing {
                        bypass,
                        replace,
                        timeout,
                        duration,
                        limit: None,
                    });
                    if let Some(l2) = simplify_dist(&l) {
                        push_action(Action::BlockOutgoing {
                            bypass,
                            replace,
                            timeout,
                            duration,
                            limit: Some(l2),
                        });
                    }
                }
            }
            Some(Action::UpdateTimer {
                replace,
                duration,
                limit,
            }) => {
                if let Some(d) = simplify_dist(&duration) {
                    push_action(Action::UpdateTimer {
                        replace,
                        duration: d,
                        limit,
                    });
                }
                if let Some(l) = limit {
                    push_action(Action::UpdateTimer {
                        replace,
                        duration,
                        limit: None,
                    });
                    if let Some(l2) = simplify_dist(&l) {
                        push_action(Action::UpdateTimer {
                            replace,
                            duration,
                            limit: Some(l2),
                        });
                    }
                }
            }
            _ => {}
        }
        for which in 0..2 {
            let c = if which == 0 {
                st.counter.0
            } else {
                st.counter.1
            };
            if let Some(c) = c {
                if let Some(d) = c.dist {
                    if let Some(d2) = simplify_dist(&d) {
                        let mut states = m.states.clone();
                        let nc = Some(Counter {
                            operation: c.operation,
                            dist: Some(d2),
                            copy: c.copy,
                        });
                        if which == 0 {
                            states[i].counter.0 = nc;
                        } else {
                            states[i].counter.1 = nc;
                        }
                        if let Some(x) = mk(states, m) {
                            out.push(x);
                        }
                    }
                }
            }
        }
    }
    // simplify budgets
    for (a, b, c, d) in [
        (
            0,
            m.max_padding_frac,
            m.allowed_blocked_microsec,
            m.max_blocking_frac,
        ),
        (
            m.allowed_padding_packets,
            0.0,
            m.allowed_blocked_microsec,
            m.max_blocking_frac,
        ),
        (
            m.allowed_padding_packets,
            m.max_padding_frac,
            0,
            m.max_blocking_frac,
        ),
        (
            m.allowed_padding_packets,
            m.max_padding_frac,
            m.allowed_blocked_microsec,
            0.0,
        ),
    ] {
        if (a, b.to_bits(), c, d.to_bits())
            != (
                m.allowed_padding_packets,
                m.max_padding_frac.to_bits(),
                m.allowed_blocked_microsec,
                m.max_blocking_frac.to_bits(),
            )
        {
            if let Ok(x) = Machine::new(a, b, c, d, m.states.clone()) {
                out.push(x);
            }
        }
    }
    out
}

/// make exactly one field of a valid machine invalid
pub fn invalidate(g: &mut Gen, mut m: Machine) -> (Machine, String) {
    let n = m.states.len();
    let si = g.usize(n);
    let bad_f = |g: &mut Gen| *g.pick(&[f64::NAN, f64::INFINITY, -0.5, 1.5, -1e-300, 1.0000000000000002]);
    let bad_p = |g: &mut Gen| *g.pick(&[0.0f32, -0.5, 1.5, f32::NAN, f32::INFINITY, 1.0000001]);
    let rebuild = |st: &State, f: &mut dyn FnMut(&mut enum_map::EnumMap<maybenot::event::Event, Vec<Trans>>)| -> State {
        let mut t = st.get_transitions();
        f(&mut t);
        let mut s2 = State::new(t);
        s2.action = st.action;
        s2.counter = st.counter;
        s2
    };
    let ev = *g.pick(&ALL_EVENTS);
    let what = match g.below(10) {
        0 => {
            m.max_padding_frac = bad_f(g);
            "max_padding_frac"
        }
        1 => {
            m.max_blocking_frac = bad_f(g);
            "max_blocking_frac"
        }
        2 => {
            m.states.clear();
            "no states"
        }
        3 => {
            let to = n + g.usize(3);
            m.states[si] = rebuild(&m.states[si], &mut |t| t[ev] = vec![Trans(to, 1.0)]);
            "transition target out of bounds"
        }
        4 => {
            m.states[si] = rebuild(&m.states[si], &mut |t| t[ev] = vec![Trans(0, 0.25), Trans(0, 0.25)]);
            "duplicate transition target"
        }
        5 => {
            let p = bad_p(g);
            m.states[si] = rebuild(&m.states[si], &mut |t| t[ev] = vec![Trans(0, p)]);
            "transition probability outside (0,1]"
        }
        6 => {
            let second = if n > 1 { 1 } else { maybenot::constants::STATE_END };
            m.states[si] = rebuild(&m.states[si], &mut |t| t[ev] = vec![Trans(0, 0.75), Trans(second, 0.5)]);
            "transition probabilities sum above 1"
        }
        7 => {
            let d = crate::distsim::rejected_dist(g);
            m.states[si].action = Some(match g.below(3) {
                0 => maybenot::action::Action::SendPadding { bypass: false, replace: false, timeout: d, limit: None },
                1 => maybenot::action::Action::BlockOutgoing { bypass: false, replace: false, timeout: cdist(1.0), duration: d, limit: None },
                _ => maybenot::action::Action::UpdateTimer { replace: false, duration: cdist(1.0), limit: Some(d) },
            });
            "invalid distribution in an action"
        }
        8 => {
            let d = crate::distsim::rejected_dist(g);
            let c = maybenot::counter::Counter::new_dist(maybenot::counter::Operation::Increment, d);
            if g.bool() {
                m.states[si].counter.0 = Some(c);
            } else {
                m.states[si].counter.1 = Some(c);
            }
            "invalid distribution in a counter"
        }
        _ => {
            // STATE_END is the largest pseudo-state; anything above it is no state at all
            let beyond = *g.pick(&[
                maybenot::constants::STATE_END + 1,
                maybenot::constants::STATE_END + 2,
                1usize << 40,
                usize::MAX,
                usize::MAX - 1,
            ]);
            m.states[si] = rebuild(&m.states[si], &mut |t| t[ev] = vec![Trans(beyond, 1.0)]);
            "transition target beyond the pseudo-states"
        }
    };
    (m, what.to_string())
}


#[cfg(test)]
mod tests {
    use super::*;
    #[test]
    fn structural_codec_round_trips() {
        let mut g = Gen::new(7);
        for i in 0..20000u64 {
            let fam = match i % 3 { 0 => Family::Det, 1 => Family::Dyadic, _ => Family::Wild };
            let cfg = MachCfg::new(fam);
            let m = gen_machine(&mut g, &cfg);
            let e = enc(&m);
            let d = dec(&e).expect("decodes");
            assert_eq!(bincode::serialize(&m).unwrap(), bincode::serialize(&d).unwrap());
            assert_eq!(enc(&d), e);
            let old = hex::encode(bincode::serialize(&m).unwrap());
            assert_eq!(enc(&dec(&old).unwrap()), e);
        }
    }
}

//! C07 (per-state limits), C08 (counters), C09 (signals), C10 (non-interference).
//! Each has a statement-level monitor over the H1 log, independent of the
//! reference semantics; C07-C09 additionally run in lock-step with the
//! reference on the reference-comparable families.

use crate::common::*;
use crate::fwsim::*;
use crate::mach::{self, Family, MachCfg};
use crate::props_fw::*;
use crate::props_ref::*;
use crate::sup::{EngineInfo, Stats, Tier};
use maybenot::action::Action;
use maybenot::counter::{Counter, Operation};
use maybenot::dist::DistType;
use maybenot::event::Event;
use maybenot::verif::{Rec, Snapshot};
use maybenot::Machine;
use serde_json::json;

fn action_has_limit(a: &Option<Action>) -> bool {
    match a {
        Some(Action::SendPadding { limit, .. })
        | Some(Action::BlockOutgoing { limit, .. })
        | Some(Action::UpdateTimer { limit, .. }) => limit.is_some(),
        _ => false,
    }
}

/// mix of reference-comparable and wild cases
fn gen_mixed(
    g: &mut Gen,
    stats: &mut Stats,
    p_ref: f64,
    max_machines: usize,
    tweak: &dyn Fn(&mut Gen, &mut MachCfg, &mut HistCfg),
) -> FwCase {
    if g.chance(p_ref) {
        gen_ref_case(
            g,
            stats,
            &RefGenCfg {
                max_machines,
                max_calls: 120,
            },
            tweak,
        )
    } else {
        gen_wild_case(g, stats, max_machines, 150, tweak)
    }
}

fn with_ref(case: &FwCase, m: Box<dyn Monitor>) -> Box<dyn Monitor> {
    if case.extra["ref"].as_bool().unwrap_or(false) {
        Box::new(Multi(vec![m, Box::new(RefMon::new(case))]))
    } else {
        m
    }
}

// ===========================================================================
// C07

pub struct C07;

#[derive(Clone, Default)]
struct Stay {
    state: usize,
    limited: bool,
    l: u64,
    done: u64,
    id: u64,
    ended: bool,
}

struct C07Mon {
    st: Vec<Stay>,
    lost: bool,
    limit_reached: u64,
    completions: u64,
    checked_calls: u64,
}

impl C07Mon {
    fn enter(&mut self, case: &FwCase, mi: usize, state: usize, limit: u64) {
        let s = &mut self.st[mi];
        s.state = state;
        s.limited = action_has_limit(&case.machines[mi].states[state].action);
        s.l = limit;
        s.done = 0;
        s.id += 1;
    }
}

impl Monitor for C07Mon {
    fn start(&mut self, case: &FwCase, snap: &Snapshot) {
        for (mi, m) in snap.machines.iter().enumerate() {
            self.st[mi] = Stay {
                state: 0,
                limited: action_has_limit(&case.machines[mi].states[0].action),
                l: m.state_limit,
                done: 0,
                id: 0,
                ended: false,
            };
        }
    }
    fn after_call(
        &mut self,
        case: &FwCase,
        _k: usize,
        call: &Call,
        out: &CallOut,
        stats: &mut Stats,
    ) -> Option<(String, String)> {
        if self.lost {
            return None;
        }
        if call.ev.len() > 1 {
            // batches are judged through the reference semantics only
            self.lost = true;
            stats.inc("c07_statement_monitor_stopped_at_batch");
            return None;
        }
        self.checked_calls += 1;
        let m = case.machines.len();
        // which machine does a completion in this call address?
        let (target, cev) = match call.ev.first() {
            Some(Ev::PS(id)) if (*id as usize) < m => (Some(*id as usize), Event::PaddingSent),
            Some(Ev::BB(id)) if (*id as usize) < m => (Some(*id as usize), Event::BlockingBegin),
            Some(Ev::TB(id)) if (*id as usize) < m => (Some(*id as usize), Event::TimerBegin),
            _ => (None, Event::NormalRecv),
        };
        stats.probe_if(
            "completion_for_other_or_unknown",
            matches!(
                call.ev.first(),
                Some(Ev::PS(_)) | Some(Ev::BB(_)) | Some(Ev::TB(_))
            ) && (target.is_none() || m > 1),
        );
        // (stay id, state) of the last scheduling per machine
        let mut sched: Vec<Option<(u64, usize)>> = vec![None; m];
        // every stay of each machine in which a transition of this call was evaluated:
        // the code judges limits on the entered state *before* the counter update, so an
        // action decided in one stay may be scheduled after a CounterZero round trip has
        // left and re-entered the state with a fresh limit
        let mut outer: Vec<Vec<Stay>> = vec![vec![]; m];
        let log = &out.log;
        let mut i = 0;
        // has the completion's own transition been evaluated yet?
        let mut in_span = false;
        let mut span_changed = false;
        let mut completion_pending: Option<usize> = None;
        while i <= log.len() {
            // close the completion span when the next record no longer belongs to it
            if in_span {
                let closes = match log.get(i) {
                    None => true,
                    Some(Rec::Deliver { mi, event }) => {
                        Some(*mi) != completion_pending
                            || *event == Event::LimitReached
                            || *event == Event::Signal
                    }
                    Some(Rec::LimitDec { .. }) | Some(Rec::Withdrawn { .. }) => true,
                    Some(Rec::SignalRoundStart) => true,
                    _ => false,
                };
                if closes {
                    in_span = false;
                    let mi = completion_pending.take().unwrap();
                    if !span_changed && !self.st[mi].ended {
                        self.completions += 1;
                        let s = &mut self.st[mi];
                        s.done = s.done.saturating_add(1);
                        let (limited, l, done) = (s.limited, s.l, s.done);
                        // LimitReached must follow exactly when the L-th completion arrives
                        let lr_follows = log[i..].iter().any(|r| {
                            matches!(r, Rec::Deliver { mi: x, event: Event::LimitReached } if *x == mi)
                        });
                        if limited && done == l && l > 0 && !lr_follows {
                            return Some((
                                "limit-reached-missing".into(),
                                format!(
                                    "machine {mi}: completion {done} of {l} in state {} did not raise LimitReached",
                                    self.st[mi].state
                                ),
                            ));
                        }
                        if (limited && done < l || !limited) && lr_follows {
                            return Some((
                                "limit-reached-early".into(),
                                format!(
                                    "machine {mi}: LimitReached raised after {done} completion(s) of {} in state {}",
                                    if limited { l.to_string() } else { "unlimited".into() },
                                    self.st[mi].state
                                ),
                            ));
                        }
                        if limited && done >= l {
                            self.limit_reached += 1;
                            stats.probe("limit_reached");
                            // the pending action must be withdrawn at this instant
                            if let Some((sid, _)) = sched[mi] {
                                if sid == self.st[mi].id {
                                    sched[mi] = None; // it has to be gone; checked at the end
                                }
                            }
                        }
                    } else if span_changed {
                        stats.probe("completion_with_state_change");
                    }
                }
            }
            let Some(r) = log.get(i) else { break };
            match r {
                Rec::Deliver { mi, event } => {
                    if *mi < m {
                        // a stay in which a transition of this call is evaluated
                        outer[*mi].push(self.st[*mi].clone());
                    }
                    if Some(*mi) == target
                        && *event == cev
                        && completion_pending.is_none()
                        && !in_span
                    {
                        // first delivery of the completion event to its machine
                        // (only once per single-event call)
                        let already = log[..i].iter().any(|x| {
                            matches!(x, Rec::Deliver { mi: y, event: e } if *y == *mi && *e == cev)
                        });
                        if !already {
                            in_span = true;
                            span_changed = false;
                            completion_pending = Some(*mi);
                        }
                    }
                }
                Rec::Entered { mi, state, limit } => {
                    if in_span && Some(*mi) == completion_pending {
                        span_changed = true;
                    }
                    if *mi < m {
                        let prev = self.st[*mi].state;
                        self.enter(case, *mi, *state, *limit);
                        stats.probe_if("reenter_after_leave", prev != *state);
                        outer[*mi].push(self.st[*mi].clone());
                    }
                }
                Rec::Ended { mi } => {
                    if in_span && Some(*mi) == completion_pending {
                        span_changed = true;
                    }
                    if *mi < m {
                        self.st[*mi].ended = true;
                    }
                }
                Rec::Scheduled { mi, state, some } => {
                    if *mi < m && *some {
                        let s = &self.st[*mi];
                        let lim = action_has_limit(&case.machines[*mi].states[*state].action);
                        let forbidden_now = lim && *state == s.state && s.limited && s.done >= s.l;
                        let allowed_by_outer = outer[*mi].iter().any(|o| {
                            o.id != s.id && o.state == *state && (!o.limited || o.done < o.l)
                        });
                        stats.probe_if("scheduled_after_round_trip_on_outer_stay", forbidden_now && allowed_by_outer);
                        if forbidden_now && !allowed_by_outer {
                            return Some((
                                "limited-action-after-limit".into(),
                                format!(
                                    "machine {mi}: limited action of state {state} scheduled although {} completion(s) of a limit of {} were already reported in this stay",
                                    s.done, s.l
                                ),
                            ));
                        }
                        stats.probe_if("limit_zero_stay", lim && s.l == 0);
                        sched[*mi] = if forbidden_now { None } else { Some((s.id, *state)) };
                    }
                }
                _ => {}
            }
            i += 1;
        }
        // end of call: a limited action of an exhausted stay must not be returned
        for a in &out.actions {
            if a.machine >= m || a.kind == 0 {
                continue;
            }
            let s = &self.st[a.machine];
            if let Some((sid, state)) = sched[a.machine] {
                if sid == s.id
                    && state == s.state
                    && s.limited
                    && s.done >= s.l
                    && action_has_limit(&case.machines[a.machine].states[state].action)
                {
                    return Some((
                        "exhausted-action-returned".into(),
                        format!(
                            "machine {}: {} returned from state {} although its limit of {} is used up ({} completions)",
                            a.machine,
                            a.short(),
                            state,
                            s.l,
                            s.done
                        ),
                    ));
                }
            }
        }
        // cross-check the limit the implementation holds against the count
        for (mi, ms) in out.snap.machines.iter().enumerate() {
            let s = &self.st[mi];
            if !s.ended && s.limited && ms.current_state == s.state {
                let want = s.l.saturating_sub(s.done);
                if ms.state_limit != want {
                    return Some((
                        "remaining-limit".into(),
                        format!(
                            "machine {mi} in state {}: limit {} sampled for this stay, {} own completion(s) without state change, but {} remain",
                            s.state, s.l, s.done, ms.state_limit
                        ),
                    ));
                }
            }
        }
        None
    }
    fn nontrivial(&self) -> bool {
        self.limit_reached >= 1 && self.checked_calls >= 2
    }
}

fn c07_tweak(g: &mut Gen, mc: &mut MachCfg, hc: &mut HistCfg) {
    mc.p_limit = 0.9;
    mc.action_w = [1, 1, 5, 4, 4];
    mc.p_signal = *g.pick(&[0.0, 0.0, 0.1, 0.2]);
    mc.p_end = 0.01;
    mc.limits = vec![0.0, 1.0, 1.0, 2.0, 2.0, 3.0, 4.0];
    mc.p_trans = *g.pick(&[0.25, 0.4, 0.6]);
    mc.p_counter = *g.pick(&[0.0, 0.3]);
    if g.chance(0.7) {
        // budgets out of the way: limits decide alone
        mc.pad_budgets = vec![u64::MAX, 1000];
        mc.block_budgets = vec![u64::MAX];
        mc.fracs = vec![0.0];
    } else {
        // budgets and limits together (zero-packet / zero-time edges)
        mc.pad_budgets = vec![0, 0, u64::MAX];
        mc.block_budgets = vec![0, u64::MAX];
        mc.fracs = vec![0.0, 0.5, 1.0];
    }
    mc.times_us = vec![0.0, 1.0, 10.0];
    hc.single_event = g.chance(0.7);
    hc.p_stale = *g.pick(&[0.0, 0.2, 0.4]);
    hc.p_open = *g.pick(&[0.0, 0.2, 0.5]);
    hc.open_w = [1, 1, 1, 1, 5, 1, 5, 1, 5, 1];
}

impl FwProp for C07 {
    fn info(&self) -> EngineInfo {
        EngineInfo {
            property: "C07",
            engine: "fwsim",
            level: "exploration",
            rule: "case = 1..4 machines whose actions carry limits (constant 0..4 or sampled), self-transitions, leave/re-enter, CounterZero round trips, completions for the right machine, for other machines and for unknown ids (stale_id fault), single-event histories (70%) and batches (30%); statement-level monitor counts own completions per stay from the input events (H1 log only as witness of state changes, sampled limit and LimitReached delivery) and, on the det/dyadic families, lock-step with the reference semantics; distinct = hash of per-call (event kinds, action kinds); non-trivial = a limit was reached at least once while the statement monitor was tracking".into(),
            assumptions: vec![
                "the statement-level monitor follows single-event calls only and stops at the first batch of a history; batches are judged by the reference semantics".into(),
                "the sampled limit of a stay is read from the H1 Entered record / initial snapshot".into(),
            ],
            real_components: FW_REAL.to_vec(),
            stubbed_components: FW_STUB.to_vec(),
            totality: false,
            cpu_limit_s: crate::sup::CASE_CPU_LIMIT_S,
            exhaustive: false,
        }
    }
    fn n_cases(&self, tier: Tier) -> u64 {
        match tier {
            Tier::Quick => 300_000,
            Tier::Thorough => 6_000_000,
        }
    }
    fn generate(&self, g: &mut Gen, _tier: Tier, stats: &mut Stats) -> FwCase {
        let mut c = gen_mixed(g, stats, 0.6, 4, &c07_tweak);
        if g.chance(0.7) {
            // mostly without framework budgets, so that limits decide alone
            c.pf = 0.0;
            c.bf = 0.0;
        }
        c
    }
    fn monitor(&self, case: &FwCase) -> Box<dyn Monitor> {
        with_ref(
            case,
            Box::new(C07Mon {
                st: vec![Stay::default(); case.machines.len()],
                lost: false,
                limit_reached: 0,
                completions: 0,
                checked_calls: 0,
            }),
        )
    }
}

// ===========================================================================
// C08

pub struct C08;

struct C08Mon {
    cur: Vec<(u64, u64)>,
    zero_events: u64,
    updates: u64,
}

fn const_value(c: &Counter) -> Option<u64> {
    match c.dist {
        None => Some(1),
        Some(d) => match d.dist {
            DistType::Uniform { low, high } if low == high && d.start == 0.0 && d.max == 0.0 => {
                Some(low.max(0.0) as u64)
            }
            _ => None,
        },
    }
}

fn check_update(
    which: &str,
    c: &Option<Counter>,
    old: u64,
    other_old: u64,
    new: u64,
    stats: &mut Stats,
) -> Option<String> {
    let Some(c) = c else {
        return if new != old {
            Some(format!(
                "counter {which} changed from {old} to {new} without an update specification"
            ))
        } else {
            None
        };
    };
    let v = if c.copy {
        Some(other_old)
    } else {
        const_value(c)
    };
    let expect = |v: u64| match c.operation {
        Operation::Increment => old.saturating_add(v),
        Operation::Decrement => old.saturating_sub(v),
        Operation::Set => v,
    };
    if c.copy {
        stats.probe("copy_update");
    }
    match v {
        Some(v) => {
            stats.probe_if(
                "saturated_at_max",
                old.checked_add(v).is_none() && c.operation == Operation::Increment,
            );
            stats.probe_if(
                "saturated_at_zero",
                old < v && c.operation == Operation::Decrement,
            );
            if new != expect(v) {
                return Some(format!(
                    "counter {which}: {:?} by {v}{} from {old} must give {} but gave {new}",
                    c.operation,
                    if c.copy {
                        " (copy of the other counter before the transition)"
                    } else {
                        ""
                    },
                    expect(v)
                ));
            }
        }
        None => {
            // sampled value unknown here: direction only (no wrap)
            let ok = match c.operation {
                Operation::Increment => new >= old,
                Operation::Decrement => new <= old,
                Operation::Set => true,
            };
            if !ok {
                return Some(format!(
                    "counter {which}: {:?} by a sampled value moved {old} to {new} (wrapped)",
                    c.operation
                ));
            }
        }
    }
    None
}

impl Monitor for C08Mon {
    fn after_call(
        &mut self,
        case: &FwCase,
        _k: usize,
        _call: &Call,
        out: &CallOut,
        stats: &mut Stats,
    ) -> Option<(String, String)> {
        let m = case.machines.len();
        let mut once = vec![(false, false); m];
        let log = &out.log;
        let mut zero_machines = 0u64;
        for (i, r) in log.iter().enumerate() {
            match r {
                Rec::Counters {
                    mi,
                    state,
                    old,
                    new,
                } => {
                    if *mi >= m {
                        continue;
                    }
                    self.updates += 1;
                    if *old != self.cur[*mi] {
                        return Some((
                            "counter-discontinuity".into(),
                            format!(
                                "machine {mi}: counters were {:?} after the previous update but {:?} before this one",
                                self.cur[*mi], old
                            ),
                        ));
                    }
                    let st = &case.machines[*mi].states[*state];
                    if let Some(d) = check_update("A", &st.counter.0, old.0, old.1, new.0, stats) {
                        return Some((
                            "counter-arith".into(),
                            format!("machine {mi} entering state {state}: {d}"),
                        ));
                    }
                    if let Some(d) = check_update("B", &st.counter.1, old.1, old.0, new.1, stats) {
                        return Some((
                            "counter-arith".into(),
                            format!("machine {mi} entering state {state}: {d}"),
                        ));
                    }
                    self.cur[*mi] = *new;
                    // the update precedes the scheduling of the entered state's action
                    if i > 0 {
                        if let Rec::Scheduled {
                            mi: x, state: s, ..
                        } = &log[i - 1]
                        {
                            if x == mi && s == state {
                                return Some((
                                    "scheduled-before-update".into(),
                                    format!("machine {mi}: action of state {state} scheduled before its counter update"),
                                ));
                            }
                        }
                    }
                    let za = old.0 != 0 && new.0 == 0;
                    let zb = old.1 != 0 && new.1 == 0;
                    let mut expect = false;
                    if za && !once[*mi].0 {
                        expect = true;
                        once[*mi].0 = true;
                    }
                    if zb && !once[*mi].1 {
                        expect = true;
                        once[*mi].1 = true;
                    }
                    stats.probe_if("both_counters_zero_in_one_update", za && zb);
                    stats.probe_if("zero_again_same_call_suppressed", (za || zb) && !expect);
                    let follows = matches!(log.get(i + 1), Some(Rec::Deliver { mi: x, event: Event::CounterZero }) if x == mi);
                    if expect && !follows {
                        return Some((
                            "counter-zero-missing".into(),
                            format!(
                                "machine {mi}: counters went {:?} -> {:?} (reaching zero from non-zero, first time in this call) but no CounterZero was delivered",
                                old, new
                            ),
                        ));
                    }
                    if !expect && follows {
                        return Some((
                            "counter-zero-spurious".into(),
                            format!(
                                "machine {mi}: CounterZero delivered after counters went {:?} -> {:?}",
                                old, new
                            ),
                        ));
                    }
                    if expect {
                        self.zero_events += 1;
                        zero_machines += 1;
                    }
                }
                Rec::Deliver {
                    mi,
                    event: Event::CounterZero,
                } => {
                    let ok = i > 0 && matches!(&log[i - 1], Rec::Counters { mi: x, .. } if x == mi);
                    if !ok {
                        return Some((
                            "counter-zero-spurious".into(),
                            format!("machine {mi}: CounterZero delivered without a counter update directly before it"),
                        ));
                    }
                }
                _ => {}
            }
        }
        stats.probe_if("two_machines_zero_same_call", {
            let n = once.iter().filter(|o| o.0 || o.1).count();
            n >= 2
        });
        let _ = zero_machines;
        for (mi, ms) in out.snap.machines.iter().enumerate() {
            if (ms.counter_a, ms.counter_b) != self.cur[mi] {
                return Some((
                    "counter-discontinuity".into(),
                    format!(
                        "machine {mi}: counters are ({}, {}) after the call but the last logged update left {:?}",
                        ms.counter_a, ms.counter_b, self.cur[mi]
                    ),
                ));
            }
        }
        None
    }
    fn nontrivial(&self) -> bool {
        self.zero_events >= 1 && self.updates >= 3
    }
}

fn c08_tweak(g: &mut Gen, mc: &mut MachCfg, hc: &mut HistCfg) {
    mc.p_counter = *g.pick(&[0.6, 0.9]);
    mc.p_trans = *g.pick(&[0.3, 0.5, 0.8]);
    mc.p_signal = *g.pick(&[0.0, 0.0, 0.1, 0.25]);
    mc.p_end = 0.01;
    mc.p_limit = 0.2;
    // CounterZero transitions matter here
    hc.p_open = *g.pick(&[0.2, 0.5]);
    let _ = hc;
}

impl FwProp for C08 {
    fn info(&self) -> EngineInfo {
        EngineInfo {
            property: "C08",
            engine: "fwsim",
            level: "exploration",
            rule: "case = 1..4 machines with counter updates on most states (3 operations x {unit, sampled, copy} on both counters, constants 0,1,2,3, 9.3e18, 1.8e19 and above so that values saturate at u64::MAX), CounterZero transitions that themselves update counters, several machines sharing a history; statement-level monitor over the H1 counter-update records (arithmetic recomputed independently, continuity, CounterZero exactly after a non-zero -> zero update, once per counter and machine per call, update before scheduling) and, on det/dyadic families, lock-step with the reference; distinct = hash of per-call (event kinds, action kinds); non-trivial = at least one CounterZero and three counter updates".into(),
            assumptions: vec![
                "old/new counter values are read from the H1 Counters records and cross-checked against the snapshot after every call".into(),
                "for non-constant sampled update values only direction / no-wrap is checked by the statement monitor; exact values are compared by the reference in const-per-call mode".into(),
            ],
            real_components: FW_REAL.to_vec(),
            stubbed_components: FW_STUB.to_vec(),
            totality: false,
            cpu_limit_s: crate::sup::CASE_CPU_LIMIT_S,
            exhaustive: false,
        }
    }
    fn n_cases(&self, tier: Tier) -> u64 {
        match tier {
            Tier::Quick => 300_000,
            Tier::Thorough => 6_000_000,
        }
    }
    fn generate(&self, g: &mut Gen, _tier: Tier, stats: &mut Stats) -> FwCase {
        gen_mixed(g, stats, 0.6, 4, &c08_tweak)
    }
    fn monitor(&self, case: &FwCase) -> Box<dyn Monitor> {
        with_ref(
            case,
            Box::new(C08Mon {
                cur: vec![(0, 0); case.machines.len()],
                zero_events: 0,
                updates: 0,
            }),
        )
    }
}

// ===========================================================================
// C09

pub struct C09;

struct C09Mon {
    ended: Vec<bool>,
    rounds: u64,
    answered: u64,
}

impl Monitor for C09Mon {
    fn after_call(
        &mut self,
        case: &FwCase,
        _k: usize,
        _call: &Call,
        out: &CallOut,
        stats: &mut Stats,
    ) -> Option<(String, String)> {
        let m = case.machines.len();
        let log = &out.log;
        let round_at = log.iter().position(|r| matches!(r, Rec::SignalRoundStart));
        let mut signallers: Vec<usize> = vec![];
        let mut times: Vec<u32> = vec![0; m];
        let mut answerers: Vec<usize> = vec![];
        let mut delivered = vec![0u32; m];
        // ended status at the start of the signal round
        let mut ended = self.ended.clone();
        for (i, r) in log.iter().enumerate() {
            let before_round = round_at.map_or(true, |p| i < p);
            match r {
                Rec::Signalled { mi } if *mi < m => {
                    if before_round {
                        times[*mi] += 1;
                        if !signallers.contains(mi) {
                            signallers.push(*mi);
                        }
                    } else if !answerers.contains(mi) {
                        answerers.push(*mi);
                    }
                }
                Rec::Ended { mi } if *mi < m => {
                    if before_round {
                        ended[*mi] = true;
                    }
                    self.ended[*mi] = true;
                }
                Rec::Deliver {
                    mi,
                    event: Event::Signal,
                } if *mi < m => {
                    if before_round {
                        return Some((
                            "signal-before-round".into(),
                            format!("machine {mi} received Signal before the events of the call were all processed"),
                        ));
                    }
                    delivered[*mi] += 1;
                }
                _ => {}
            }
        }
        if signallers.is_empty() {
            if round_at.is_some() || delivered.iter().any(|d| *d > 0) {
                return Some((
                    "signal-without-signaller".into(),
                    format!("Signal deliveries {delivered:?} in a call during which no machine signalled"),
                ));
            }
            return None;
        }
        self.rounds += 1;
        stats.probe_if(
            "same_machine_signalled_repeatedly",
            times.iter().any(|t| *t >= 2),
        );
        stats.probe_if("several_signallers", signallers.len() >= 2);
        stats.probe_if("ended_machine_present", ended.iter().any(|e| *e));
        for mi in 0..m {
            if delivered[mi] > 1 {
                return Some((
                    "signal-twice".into(),
                    format!(
                        "machine {mi} received {} Signals in one call (signallers {signallers:?})",
                        delivered[mi]
                    ),
                ));
            }
        }
        if signallers.len() == 1 {
            let x = signallers[0];
            let answered = answerers.iter().any(|a| *a != x);
            if answered {
                self.answered += 1;
                stats.probe("lone_signaller_answered");
            }
            for mi in 0..m {
                let want = if mi == x {
                    (answered && !ended[mi]) as u32
                } else {
                    (!ended[mi]) as u32
                };
                if delivered[mi] != want {
                    let class = if mi == x && delivered[mi] > want {
                        "lone-signaller-signalled"
                    } else if delivered[mi] < want {
                        "signal-missed"
                    } else {
                        "signal-to-ended"
                    };
                    return Some((
                        class.into(),
                        format!(
                            "lone signaller {x} (signalled {} time(s), answered: {answered}); machine {mi} (ended: {}) received {} Signal(s), expected {want}; deliveries {delivered:?}",
                            times[x], ended[mi], delivered[mi]
                        ),
                    ));
                }
            }
        } else {
            for mi in 0..m {
                let want = (!ended[mi]) as u32;
                if delivered[mi] != want {
                    return Some((
                        if delivered[mi] < want { "signal-missed" } else { "signal-to-ended" }.into(),
                        format!(
                            "signallers {signallers:?}; machine {mi} (ended: {}) received {} Signal(s), expected {want}; deliveries {delivered:?}",
                            ended[mi], delivered[mi]
                        ),
                    ));
                }
            }
        }
        if out.snap.signal_pending {
            return Some((
                "signal-carried-over".into(),
                "a signal is still pending after the call returned".into(),
            ));
        }
        None
    }
    fn nontrivial(&self) -> bool {
        self.rounds >= 1
    }
}

fn c09_tweak(g: &mut Gen, mc: &mut MachCfg, hc: &mut HistCfg) {
    mc.p_signal = *g.pick(&[0.15, 0.3, 0.5]);
    mc.p_end = *g.pick(&[0.0, 0.03, 0.08]);
    mc.p_trans = *g.pick(&[0.3, 0.5, 0.8]);
    mc.p_limit = 0.4;
    mc.p_counter = 0.3;
    if g.chance(0.5) {
        hc.p_batch = 0.5;
    }
}

impl FwProp for C09 {
    fn info(&self) -> EngineInfo {
        EngineInfo {
            property: "C09",
            engine: "fwsim",
            level: "exploration",
            rule: "case = 1..5 machines with signalling transitions on external events, LimitReached, CounterZero and Signal, END transitions, batches in which the same or different machines signal once or several times; statement-level monitor over the H1 log of each call (who signalled before the round, who received Signal, who had ended) and, on det/dyadic families, lock-step with the reference; distinct = hash of per-call (event kinds, action kinds); non-trivial = at least one signal round took place".into(),
            assumptions: vec![
                "signalling, Signal deliveries and END transitions are read from the H1 log".into(),
                "a Signal delivered in a call during which no machine signalled is counted as a violation (signals only originate in the same call)".into(),
            ],
            real_components: FW_REAL.to_vec(),
            stubbed_components: FW_STUB.to_vec(),
            totality: false,
            cpu_limit_s: crate::sup::CASE_CPU_LIMIT_S,
            exhaustive: false,
        }
    }
    fn n_cases(&self, tier: Tier) -> u64 {
        match tier {
            Tier::Quick => 300_000,
            Tier::Thorough => 6_000_000,
        }
    }
    fn generate(&self, g: &mut Gen, _tier: Tier, stats: &mut Stats) -> FwCase {
        gen_mixed(g, stats, 0.5, 5, &c09_tweak)
    }
    fn monitor(&self, case: &FwCase) -> Box<dyn Monitor> {
        with_ref(
            case,
            Box::new(C09Mon {
                ended: vec![false; case.machines.len()],
                rounds: 0,
                answered: 0,
            }),
        )
    }
}

// ===========================================================================
// C10

pub struct C10;

struct C10Mon {
    target: usize,
    solo: Option<Fw>,
    solo_case: FwCase,
    actions: u64,
    neighbour_activity: u64,
}

impl Monitor for C10Mon {
    fn after_call(
        &mut self,
        case: &FwCase,
        k: usize,
        call: &Call,
        out: &CallOut,
        stats: &mut Stats,
    ) -> Option<(String, String)> {
        let m = case.machines.len() as u64;
        let t = self.target as u64;
        let proj: Vec<Ev> = call
            .ev
            .iter()
            .map(|e| match e.id() {
                Some(id) if id == t => e.with_id(0),
                Some(id) if id < m => e.with_id(1000 + id),
                Some(id) => e.with_id(id.max(1)),
                None => *e,
            })
            .collect();
        let solo_call = Call {
            now: call.now,
            ev: proj,
        };
        let Some(solo) = self.solo.as_mut() else {
            return None;
        };
        let so = match do_call(solo, &self.solo_case, k, &solo_call) {
            Ok(o) => o,
            Err(p) => {
                stats.inc("aborted_in_sut");
                self.solo = None;
                let _ = p;
                return None;
            }
        };
        let mine: Vec<ActionRec> = out
            .actions
            .iter()
            .filter(|a| a.machine == self.target)
            .map(|a| {
                let mut a = a.clone();
                a.machine = 0;
                a
            })
            .collect();
        self.actions += mine.len() as u64;
        // reach: did a neighbour do something interesting in the same call?
        let nb = out.log.iter().any(|r| match r {
            Rec::Deliver { mi, event } => {
                *mi != self.target
                    && (*event == Event::CounterZero || *event == Event::LimitReached)
            }
            Rec::Scheduled { mi, some, .. } => *mi != self.target && *some,
            _ => false,
        });
        if nb {
            self.neighbour_activity += 1;
        }
        stats.probe_if("neighbour_counterzero_or_limit_or_action_same_call", nb);
        stats.probe_if("neighbour_and_target_both_counterzero", {
            let mut t_cz = false;
            let mut n_cz = false;
            for r in &out.log {
                if let Rec::Deliver {
                    mi,
                    event: Event::CounterZero,
                } = r
                {
                    if *mi == self.target {
                        t_cz = true
                    } else {
                        n_cz = true
                    }
                }
            }
            t_cz && n_cz
        });
        if mine != so.actions {
            return Some((
                "interference".into(),
                format!(
                    "machine {} next to {} neighbour(s) yields {} but alone on the same history it yields {}",
                    self.target,
                    m - 1,
                    acts_short(&mine),
                    acts_short(&so.actions)
                ),
            ));
        }
        None
    }
    fn nontrivial(&self) -> bool {
        self.actions >= 1 && self.neighbour_activity >= 1
    }
}

impl FwProp for C10 {
    fn info(&self) -> EngineInfo {
        EngineInfo {
            property: "C10",
            engine: "fwsim",
            level: "exploration",
            rule: "case = target machine from the det family under a fair stream (60%) or from the dyadic family - probabilistic transitions, sampled Uniform distributions - under const-per-call words (40%; every draw of a call returns the same word, so the shared stream cannot matter), never signalling, placed at a random position among 1..4 neighbours of any family that never signal, framework fractions 0; the combined framework runs a closed-loop fault-injected history H, the target alone runs H with completions addressed to it renamed to id 0 and completions addressed to neighbours renamed to unknown ids; the target's actions must agree call by call; distinct = hash of per-call (event kinds, action kinds); non-trivial = target returned an action and a neighbour raised CounterZero / LimitReached / scheduled an action in some call".into(),
            assumptions: vec![
                "differential oracle: solo run and combined run use the real framework; the harness only renames machine ids".into(),
                "the target uses no randomness that matters (probability-1 transitions, constant distributions), so sharing the random stream cannot couple it to neighbours".into(),
            ],
            real_components: FW_REAL.to_vec(),
            stubbed_components: FW_STUB.to_vec(),
            totality: false,
            cpu_limit_s: crate::sup::CASE_CPU_LIMIT_S,
            exhaustive: false,
        }
    }
    fn n_cases(&self, tier: Tier) -> u64 {
        match tier {
            Tier::Quick => 300_000,
            Tier::Thorough => 5_000_000,
        }
    }
    fn generate(&self, g: &mut Gen, _tier: Tier, stats: &mut Stats) -> FwCase {
        // det target under a fair stream, or dyadic (probabilistic) target under
        // const-per-call words: every draw of a call returns the same word, so the
        // shared stream cannot couple the target to its neighbours either
        let probabilistic = g.chance(0.4);
        let mut tc = MachCfg::new(if probabilistic { Family::Dyadic } else { Family::Det });
        tc.p_signal = 0.0;
        tc.max_states = 1 + g.usize(4);
        tc.p_trans = *g.pick(&[0.3, 0.5, 0.8]);
        tc.p_counter = *g.pick(&[0.3, 0.7]);
        tc.p_limit = *g.pick(&[0.2, 0.6]);
        tc.p_end = 0.01;
        let target_m = mach::gen_machine(g, &tc);
        // neighbours: often copies or near-copies of the target (same events bite)
        let nn = 1 + g.usize(4);
        // under const-per-call words only families whose samplers terminate on a
        // constant stream (no rejection sampling): det and dyadic
        let fam = if probabilistic {
            *g.pick(&[Family::Det, Family::Dyadic])
        } else {
            *g.pick(&[Family::Det, Family::Dyadic, Family::Wild])
        };
        let mut nc = MachCfg::new(fam);
        nc.p_signal = 0.0;
        nc.max_states = 1 + g.usize(4);
        nc.p_trans = tc.p_trans;
        nc.p_counter = 0.6;
        nc.p_limit = 0.5;
        let mut machines: Vec<Machine> = (0..nn)
            .map(|_| {
                if g.chance(0.35) {
                    target_m.clone()
                } else {
                    mach::gen_machine(g, &nc)
                }
            })
            .collect();
        let pos = g.usize(nn + 1);
        machines.insert(pos, target_m);
        let start = *g.pick(&[0u64, 1_000_000_000]);
        let rng = if probabilistic {
            RngSpec::ConstPerCall(boundary_words(g, 61))
        } else {
            RngSpec::Free(g.u64())
        };
        let mut hc = if g.chance(0.2) {
            HistCfg::fault_free(100)
        } else {
            let n = *g.pick(&[20, 60, 150]);
            HistCfg::swarm(g, n)
        };
        hc.p_open = hc.p_open.max(0.2);
        let mut local = Stats::default();
        let calls = gen_history(g, &machines, 0.0, 0.0, start, &rng, &hc, &mut local);
        let kinds = count_fault_kinds(&local);
        stats.merge(&local);
        FwCase {
            machines,
            pf: 0.0,
            bf: 0.0,
            start,
            rng,
            calls,
            extra: json!({ "fault_kinds": kinds, "target": pos }),
        }
    }
    fn monitor(&self, case: &FwCase) -> Box<dyn Monitor> {
        let target = case.extra["target"].as_u64().unwrap_or(0) as usize;
        let target = target.min(case.machines.len().saturating_sub(1));
        let solo_case = FwCase {
            machines: case.machines.get(target).cloned().into_iter().collect(),
            pf: 0.0,
            bf: 0.0,
            start: case.start,
            rng: case.rng.clone(),
            calls: vec![],
            extra: serde_json::Value::Null,
        };
        Box::new(C10Mon {
            target,
            solo: solo_case.build().ok(),
            solo_case,
            actions: 0,
            neighbour_activity: 0,
        })
    }
}

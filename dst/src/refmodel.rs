//! Executable reference semantics of the framework, written from the documented
//! operational semantics (lib.rs example, action.rs / counter.rs docs) and from
//! the property statements C02-C10. Shares no code with framework.rs: machines
//! are read through the public API, the only primitives of the real crate used
//! are `Dist::sample` (a trusted leaf, attacked separately by C13) and
//! `std::time::Duration`.
//!
//! Randomness: transition choice is computed here from the 32-bit draw exactly
//! as the property states it (`r = (word32 >> 9) / 2^23`, first target whose
//! cumulative probability exceeds r). Distributions are sampled with the same
//! simulated source as the implementation. The comparison is only made in
//! modes where the number and order of draws cannot matter (const-per-call
//! words, or machines whose outcomes do not depend on the draw).

use crate::common::*;
use crate::fwsim::{ActionRec, Ev};
use crate::mach::ALL_EVENTS;
use maybenot::action::Action;
use maybenot::constants::{STATE_END, STATE_SIGNAL};
use maybenot::counter::Operation;
use maybenot::dist::Dist;
use maybenot::event::Event;
use maybenot::state::Trans;
use maybenot::{Machine, Timer};
use std::time::Duration;

const DAY_US: f64 = 24.0 * 60.0 * 60.0 * 1000.0 * 1000.0;

#[derive(Clone, Debug)]
pub struct RefMachine {
    pub current: usize,
    pub limit: u64,
    pub padding_sent: u64,
    pub normal_sent: u64,
    pub blocked: Duration,
    pub ca: u64,
    pub cb: u64,
    pub cz_once: (bool, bool),
}

#[derive(Clone, Debug, PartialEq, Eq)]
pub enum RefLog {
    Deliver(usize, Event),
}

#[derive(Clone)]
pub struct RefModel {
    machines: Vec<Machine>,
    trans: Vec<Vec<Vec<Vec<Trans>>>>, // machine -> state -> event -> list
    pub rt: Vec<RefMachine>,
    slots: Vec<Option<ActionRec>>,
    pf: f64,
    bf: f64,
    start: u64,
    now: u64,
    normal: u64,
    padding: u64,
    blocked: Duration,
    blocking_started: u64,
    pub blocking_active: bool,
    signallers: Vec<usize>,
    rng: SimRng,
    /// set when a floating-point comparison was within rounding distance of its
    /// threshold: the rest of the run is not compared
    pub ambiguous: bool,
    pub log: Vec<RefLog>,
    pub logging: bool,
}

#[derive(PartialEq, Clone, Copy)]
enum Chg {
    Changed,
    Unchanged,
}

fn near(a: f64, b: f64) -> bool {
    if a == b {
        return true;
    }
    let d = (a - b).abs();
    d <= 1e-12 * a.abs().max(b.abs())
}

impl RefModel {
    pub fn new(machines: &[Machine], pf: f64, bf: f64, start: u64, rng: SimRng) -> RefModel {
        let trans = machines
            .iter()
            .map(|m| {
                m.states
                    .iter()
                    .map(|s| {
                        let t = s.get_transitions();
                        ALL_EVENTS.iter().map(|e| t[*e].clone()).collect()
                    })
                    .collect()
            })
            .collect();
        let mut r = RefModel {
            machines: machines.to_vec(),
            trans,
            rt: vec![],
            slots: vec![None; machines.len()],
            pf,
            bf,
            start,
            now: start,
            normal: 0,
            padding: 0,
            blocked: Duration::ZERO,
            blocking_started: start,
            blocking_active: false,
            signallers: vec![],
            rng,
            ambiguous: false,
            log: vec![],
            logging: false,
        };
        for m in machines {
            // a start state without action has nothing to limit; the value is
            // never observable (the comparator ignores it for such states)
            let limit = match &m.states[0].action {
                Some(a) => r.sample_limit(a),
                None => 0,
            };
            r.rt.push(RefMachine {
                current: 0,
                limit,
                padding_sent: 0,
                normal_sent: 0,
                blocked: Duration::ZERO,
                ca: 0,
                cb: 0,
                cz_once: (false, false),
            });
        }
        r
    }

    fn sample(&mut self, d: &Dist) -> f64 {
        if let maybenot::dist::DistType::Uniform { low, high } = d.dist {
            if low == high {
                // a constant: computed from the documented rule, not by the crate's
                // sampler (no draw is consumed for a constant): the start offset is
                // added, the result is clamped to [0, max], a maximum of 0 is unset
                let mut r = 0.0f64.max(low + d.start);
                if d.max > 0.0 {
                    r = r.min(d.max);
                }
                return r;
            }
        }
        d.sample(&mut self.rng)
    }
    fn sample_limit(&mut self, a: &Action) -> u64 {
        let l = match a {
            Action::SendPadding { limit, .. }
            | Action::BlockOutgoing { limit, .. }
            | Action::UpdateTimer { limit, .. } => *limit,
            Action::Cancel { .. } => None,
        };
        match l {
            None => u64::MAX,
            Some(d) => self.sample(&d).round() as u64,
        }
    }
    fn has_limit(a: &Action) -> bool {
        match a {
            Action::SendPadding { limit, .. }
            | Action::BlockOutgoing { limit, .. }
            | Action::UpdateTimer { limit, .. } => limit.is_some(),
            Action::Cancel { .. } => false,
        }
    }

    pub fn trigger(&mut self, events: &[Ev], now: u64) -> Vec<ActionRec> {
        for s in self.slots.iter_mut() {
            *s = None;
        }
        for m in self.rt.iter_mut() {
            m.cz_once = (false, false);
        }
        self.log.clear();
        self.now = now;
        for e in events {
            self.event(*e);
        }
        // one round of signals at the end of the call
        if !self.signallers.is_empty() {
            let lone = if self.signallers.len() == 1 {
                Some(self.signallers[0])
            } else {
                None
            };
            self.signallers.clear();
            for mi in 0..self.rt.len() {
                if Some(mi) == lone {
                    continue;
                }
                self.deliver(mi, Event::Signal);
            }
            if let Some(x) = lone {
                // somebody answered the signal: the lone signaller hears it
                if self.signallers.iter().any(|s| *s != x) {
                    self.signallers.clear();
                    self.deliver(x, Event::Signal);
                }
            }
            // nothing is carried into the next call
            self.signallers.clear();
        }
        self.slots.iter().filter_map(|s| s.clone()).collect()
    }

    fn ended(&self, mi: usize) -> bool {
        self.rt[mi].current == STATE_END
    }

    fn event(&mut self, e: Ev) {
        let m = self.rt.len();
        match e {
            Ev::NR => self.all(Event::NormalRecv),
            Ev::PR => self.all(Event::PaddingRecv),
            Ev::TR => self.all(Event::TunnelRecv),
            Ev::TS => self.all(Event::TunnelSent),
            Ev::NS => {
                self.normal += 1;
                for mi in 0..m {
                    self.rt[mi].normal_sent += 1;
                    self.deliver(mi, Event::NormalSent);
                }
            }
            Ev::PS(id) => {
                self.padding += 1;
                if id >= m as u64 {
                    return;
                }
                let mi = id as usize;
                self.rt[mi].padding_sent += 1;
                if self.deliver(mi, Event::PaddingSent) == Chg::Unchanged && !self.ended(mi) {
                    self.completion(mi);
                }
            }
            Ev::BB(id) => {
                if !self.blocking_active {
                    self.blocking_active = true;
                    self.blocking_started = self.now;
                }
                for mi in 0..m {
                    if self.deliver(mi, Event::BlockingBegin) == Chg::Unchanged
                        && !self.ended(mi)
                        && mi as u64 == id
                    {
                        self.completion(mi);
                    }
                }
            }
            Ev::BE => {
                let mut blocked = Duration::ZERO;
                if self.blocking_active {
                    blocked = Duration::from_nanos(self.now.saturating_sub(self.blocking_started));
                    self.blocked += blocked;
                    self.blocking_active = false;
                }
                for mi in 0..m {
                    self.rt[mi].blocked += blocked;
                    self.deliver(mi, Event::BlockingEnd);
                }
            }
            Ev::TB(id) => {
                if id >= m as u64 {
                    return;
                }
                let mi = id as usize;
                if self.deliver(mi, Event::TimerBegin) == Chg::Unchanged && !self.ended(mi) {
                    self.completion(mi);
                }
            }
            Ev::TE(id) => {
                if id >= m as u64 {
                    return;
                }
                self.deliver(id as usize, Event::TimerEnd);
            }
        }
    }

    fn all(&mut self, e: Event) {
        for mi in 0..self.rt.len() {
            self.deliver(mi, e);
        }
    }

    /// the draw of the transition choice, as stated by the property
    fn choose(&mut self, list: &[Trans]) -> Option<usize> {
        use rand_core::RngCore;
        let w = self.rng.next_u32();
        let r = (w >> 9) as f64 / 8388608.0;
        let mut c = 0.0f64;
        for t in list {
            c += t.1 as f64;
            if r < c {
                return Some(t.0);
            }
        }
        None
    }

    fn deliver(&mut self, mi: usize, e: Event) -> Chg {
        if self.ended(mi) {
            return Chg::Unchanged;
        }
        if self.logging {
            self.log.push(RefLog::Deliver(mi, e));
        }
        let cur = self.rt[mi].current;
        let list = self.trans[mi][cur][e as usize].clone();
        if list.is_empty() {
            return Chg::Unchanged;
        }
        let Some(next) = self.choose(&list) else {
            return Chg::Unchanged;
        };
        match next {
            STATE_END => {
                self.rt[mi].current = STATE_END;
                Chg::Changed
            }
            STATE_SIGNAL => {
                if !self.signallers.contains(&mi) {
                    self.signallers.push(mi);
                }
                Chg::Unchanged
            }
            s => {
                if s != cur {
                    self.rt[mi].current = s;
                    let a = self.machines[mi].states[s].action;
                    self.rt[mi].limit = match a {
                        Some(a) => self.sample_limit(&a),
                        None => u64::MAX,
                    };
                }
                // limits are judged against the entered state before its counter update
                let below = self.below_limits(mi);
                let (allow, changed) = self.update_counters(mi);
                if allow && below {
                    self.schedule(mi, s);
                }
                if cur == self.rt[mi].current && !changed {
                    Chg::Unchanged
                } else {
                    Chg::Changed
                }
            }
        }
    }

    fn update_counters(&mut self, mi: usize) -> (bool, bool) {
        let st = &self.machines[mi].states[self.rt[mi].current];
        let (ca, cb) = st.counter;
        let old_a = self.rt[mi].ca;
        let old_b = self.rt[mi].cb;
        let mut zeroed = false;
        if let Some(c) = ca {
            let v = if c.copy {
                old_b
            } else {
                match c.dist {
                    None => 1,
                    Some(d) => self.sample(&d) as u64,
                }
            };
            let n = match c.operation {
                Operation::Increment => old_a.saturating_add(v),
                Operation::Decrement => old_a.saturating_sub(v),
                Operation::Set => v,
            };
            self.rt[mi].ca = n;
            if old_a != 0 && n == 0 && !self.rt[mi].cz_once.0 {
                zeroed = true;
                self.rt[mi].cz_once.0 = true;
            }
        }
        if let Some(c) = cb {
            let v = if c.copy {
                old_a
            } else {
                match c.dist {
                    None => 1,
                    Some(d) => self.sample(&d) as u64,
                }
            };
            let n = match c.operation {
                Operation::Increment => old_b.saturating_add(v),
                Operation::Decrement => old_b.saturating_sub(v),
                Operation::Set => v,
            };
            self.rt[mi].cb = n;
            if old_b != 0 && n == 0 && !self.rt[mi].cz_once.1 {
                zeroed = true;
                self.rt[mi].cz_once.1 = true;
            }
        }
        if zeroed {
            let c = self.deliver(mi, Event::CounterZero);
            // an action scheduled by the CounterZero transition takes precedence
            return (self.slots[mi].is_none(), c == Chg::Changed);
        }
        (true, false)
    }

    fn schedule(&mut self, mi: usize, s: usize) {
        let a = self.machines[mi].states[s].action;
        self.slots[mi] = match a {
            None => None,
            Some(Action::Cancel { timer }) => Some(ActionRec {
                kind: 0,
                machine: mi,
                bypass: false,
                replace: false,
                timer: match timer {
                    Timer::Action => 0,
                    Timer::Internal => 1,
                    Timer::All => 2,
                },
                timeout_ns: 0,
                duration_ns: 0,
            }),
            Some(Action::SendPadding {
                bypass,
                replace,
                timeout,
                ..
            }) => {
                let t = self.sample(&timeout).min(DAY_US).round() as u64;
                Some(ActionRec {
                    kind: 1,
                    machine: mi,
                    bypass,
                    replace,
                    timer: 9,
                    timeout_ns: t as u128 * 1000,
                    duration_ns: 0,
                })
            }
            Some(Action::BlockOutgoing {
                bypass,
                replace,
                timeout,
                duration,
                ..
            }) => {
                let t = self.sample(&timeout).min(DAY_US).round() as u64;
                let d = self.sample(&duration).min(DAY_US).round() as u64;
                Some(ActionRec {
                    kind: 2,
                    machine: mi,
                    bypass,
                    replace,
                    timer: 9,
                    timeout_ns: t as u128 * 1000,
                    duration_ns: d as u128 * 1000,
                })
            }
            Some(Action::UpdateTimer {
                replace, duration, ..
            }) => {
                let d = self.sample(&duration).min(DAY_US).round() as u64;
                Some(ActionRec {
                    kind: 3,
                    machine: mi,
                    bypass: false,
                    replace,
                    timer: 9,
                    timeout_ns: 0,
                    duration_ns: d as u128 * 1000,
                })
            }
        };
    }

    /// a completion (PaddingSent / BlockingBegin / TimerBegin for this machine
    /// without state change) consumes the limit of the current stay
    fn completion(&mut self, mi: usize) {
        if self.rt[mi].limit > 0 {
            self.rt[mi].limit -= 1;
        }
        let cs = self.rt[mi].current;
        if let Some(a) = self.machines[mi].states[cs].action {
            if self.rt[mi].limit == 0 && Self::has_limit(&a) {
                self.slots[mi] = None;
                self.deliver(mi, Event::LimitReached);
            }
        }
    }

    fn below_limits(&mut self, mi: usize) -> bool {
        let cs = self.rt[mi].current;
        match self.machines[mi].states[cs].action {
            None => false,
            Some(Action::Cancel { .. }) => true,
            Some(Action::UpdateTimer { .. }) => self.rt[mi].limit > 0,
            Some(Action::SendPadding { .. }) => self.below_padding(mi),
            Some(Action::BlockOutgoing { replace, .. }) => self.below_blocking(mi, replace),
        }
    }

    fn frac_ge(&mut self, f: f64, limit: f64) -> bool {
        if near(f, limit) && f.is_finite() {
            self.ambiguous = true;
        }
        f >= limit
    }

    fn below_padding(&mut self, mi: usize) -> bool {
        let m = &self.machines[mi];
        let (allowed, mfrac) = (m.allowed_padding_packets, m.max_padding_frac);
        let r = &self.rt[mi];
        let (ps, ns, limit) = (r.padding_sent, r.normal_sent, r.limit);
        if ps < allowed {
            return limit > 0;
        }
        if mfrac > 0.0 {
            let total = ns + ps;
            // a fraction over zero packets counts as below
            if total > 0 && self.frac_ge(ps as f64 / total as f64, mfrac) {
                return false;
            }
        }
        if self.pf > 0.0 {
            let total = self.padding + self.normal;
            if total > 0 && self.frac_ge(self.padding as f64 / total as f64, self.pf) {
                return false;
            }
        }
        limit > 0
    }

    fn below_blocking(&mut self, mi: usize, replace: bool) -> bool {
        let limit = self.rt[mi].limit;
        if replace && self.blocking_active {
            return limit > 0;
        }
        let mut md = self.rt[mi].blocked;
        let mut gd = self.blocked;
        if self.blocking_active {
            let on = Duration::from_nanos(self.now.saturating_sub(self.blocking_started));
            md += on;
            gd += on;
        }
        let m = &self.machines[mi];
        let (allowed, mfrac) = (
            Duration::from_micros(m.allowed_blocked_microsec),
            m.max_blocking_frac,
        );
        if md < allowed {
            return limit > 0;
        }
        let since = Duration::from_nanos(self.now.saturating_sub(self.start));
        if mfrac > 0.0 {
            let f = md.as_secs_f64() / since.as_secs_f64();
            if self.frac_ge(f, mfrac) {
                return false;
            }
        }
        if self.bf > 0.0 {
            let f = gd.as_secs_f64() / since.as_secs_f64();
            if self.frac_ge(f, self.bf) {
                return false;
            }
        }
        limit > 0
    }
}

//! Engine-A properties: generators and oracles for C01, C04 (more in other files).

use crate::common::*;
use crate::fwsim::*;
use crate::mach::{self, Family, MachCfg};
use crate::sup::{Engine, EngineInfo, Stats, Tier, Violation};
use maybenot::action::Action;
use maybenot::constants::STATE_END;
use maybenot::event::Event;
use maybenot::verif::Rec;
use maybenot::{Machine, Timer};
use serde_json::{json, Value};

pub trait FwProp {
    fn info(&self) -> EngineInfo;
    fn n_cases(&self, tier: Tier) -> u64;
    fn generate(&self, g: &mut Gen, tier: Tier, stats: &mut Stats) -> FwCase;
    fn monitor(&self, case: &FwCase) -> Box<dyn Monitor>;
    fn panic_is_violation(&self) -> bool {
        false
    }
    fn known_finding(&self, _v: &Violation) -> Option<&'static str> {
        None
    }
    fn known_finding_crash(&self, _seed: u64, _tier: Tier) -> Option<&'static str> {
        None
    }
    /// extra whole-case check after the history (e.g. differential runs)
    fn post(&self, _case: &FwCase, _stats: &mut Stats) -> Option<(String, String, FwCase)> {
        None
    }
}

pub struct FwEngine<P: FwProp>(pub P);

impl<P: FwProp> FwEngine<P> {
    fn run(&self, case: &FwCase, stats: &mut Stats) -> Vec<Violation> {
        let mut mon = self.0.monitor(case);
        let r = run_case(case, mon.as_mut(), stats, self.0.panic_is_violation());
        let mut vs = r.violations;
        if vs.is_empty() && r.sut_panicked.is_none() {
            if let Some((class, detail, c)) = self.0.post(case, stats) {
                vs.push(Violation::new(&class, detail, Some(c.to_json())));
            }
        }
        vs
    }
}

impl<P: FwProp> Engine for FwEngine<P> {
    fn info(&self) -> EngineInfo {
        self.0.info()
    }
    fn n_cases(&self, tier: Tier) -> u64 {
        self.0.n_cases(tier)
    }
    fn run_case(&self, k: u64, seed: u64, tier: Tier, stats: &mut Stats) -> Vec<Violation> {
        let mut g = Gen::new(seed);
        // thorough tier: a fraction of the cases gets much larger bounds (more
        // machines and states, histories of up to 1000 calls)
        let deep = tier == Tier::Thorough && g.chance(0.04);
        DEEP.with(|d| d.set(deep));
        if deep {
            stats.inc("deep_cases");
        }
        let mut case = self.0.generate(&mut g, tier, stats);
        DEEP.with(|d| d.set(false));
        // clock seam: three cases in ten drive the framework through the crate's
        // own `Instant` implementation for std::time::Instant instead of the
        // harness's virtual clock type (same virtual times, same oracles)
        if g.chance(0.3) {
            case.extra["std_clock"] = serde_json::json!(true);
            stats.inc("probe.framework_on_std_time_instant");
        }
        if k < 3 {
            stats.samples.push(case.sample_json());
        }
        self.run(&case, stats)
    }
    fn replay(&self, case: &Value, stats: &mut Stats) -> Vec<Violation> {
        match FwCase::from_json(case) {
            Some(c) => self.run(&c, stats),
            None => vec![],
        }
    }
    fn shrink(&self, case: &Value) -> Vec<Value> {
        shrink_case(case)
    }
    fn known_finding(&self, v: &Violation) -> Option<&'static str> {
        self.0.known_finding(v)
    }

}

thread_local! {
    /// set while a 'deep' case of the thorough tier is being generated
    pub static DEEP: std::cell::Cell<bool> = const { std::cell::Cell::new(false) };
}
pub fn deep() -> bool {
    DEEP.with(|d| d.get())
}

pub const FW_REAL: [&str; 6] = [
    "maybenot::Framework (new, trigger_events)",
    "maybenot::Machine / State::sample_state",
    "maybenot::action (sampling, clamps)",
    "maybenot::counter",
    "maybenot::dist::Dist::sample + rand_distr",
    "maybenot::time traits",
];
pub const FW_STUB: [&str; 5] = [
    "integrator (action/internal timers, blocking state, egress queue): harness model",
    "application and peer traffic: seeded workload",
    "report channel with faults (batch/drop/dup/reorder/stale id/spurious)",
    "clock: VInstant (u64 ns) with stall/back/jump faults",
    "random source: SimRng (seeded Xoshiro256**, scripted prefixes, const-per-call)",
];

pub fn count_fault_kinds(s: &Stats) -> u64 {
    s.counters
        .iter()
        .filter(|(k, v)| k.starts_with("fault.") && **v > 0)
        .count() as u64
}

/// Common wild generator: machines of all families, swarm fault configuration.
pub fn gen_wild_case(
    g: &mut Gen,
    stats: &mut Stats,
    max_machines: usize,
    max_calls: usize,
    tweak: &dyn Fn(&mut Gen, &mut MachCfg, &mut HistCfg),
) -> FwCase {
    let fam = match g.below(10) {
        0 | 1 => Family::Det,
        2 | 3 => Family::Dyadic,
        _ => Family::Wild,
    };
    let (max_machines, max_calls) = if deep() {
        (max_machines + 3, max_calls.max(1000))
    } else {
        (max_machines, max_calls)
    };
    let mut mc = MachCfg::new(fam);
    mc.max_states = 1 + g.usize(if deep() { 10 } else { 6 });
    mc.p_trans = *g.pick(&[0.15, 0.3, 0.5, 0.8]);
    mc.p_counter = *g.pick(&[0.0, 0.2, 0.6]);
    mc.p_limit = *g.pick(&[0.0, 0.3, 0.7]);
    let calls = *g.pick(&[20, 60, 120, max_calls]);
    let mut hc = if g.chance(0.15) {
        HistCfg::fault_free(calls.min(max_calls))
    } else {
        HistCfg::swarm(g, calls.min(max_calls))
    };
    tweak(g, &mut mc, &mut hc);
    let nm = if g.chance(0.05) {
        0
    } else {
        1 + g.usize(max_machines)
    };
    let mut machines: Vec<Machine> = (0..nm).map(|_| mach::gen_machine(g, &mc)).collect();
    // the quantifier is "machines that pass validation", not "machines the
    // generator builds": one case in ten makes one field of one machine invalid
    // and keeps the result only if validation still accepts it. On the unchanged
    // tree that leaves harmless corner values; if validation is relaxed, what it
    // lets through is run.
    if nm > 0 && g.chance(0.1) {
        let i = g.usize(nm);
        let (m, what) = mach::invalidate(g, machines[i].clone());
        stats.probe("machine_with_one_field_invalidated_offered");
        if crate::sup::catch_sut(|| m.validate()).map_or(false, |r| r.is_ok()) {
            stats.probe("invalidated_machine_accepted_by_validation_and_run");
            let _ = what;
            machines[i] = m;
        }
    }
    let fr = [0.0, 0.0, 0.25, 0.5, 1.0, 1.0 / 3.0, 1e-6];
    let pf = *g.pick(&fr);
    let bf = *g.pick(&fr);
    let start = *g.pick(&[0u64, 1, 1_000_000_000, 1 << 40, u64::MAX / 2]);
    let mut local = Stats::default();
    // fair seeded streams only: adversarial (scripted) randomness is the
    // subject of C13 and is injected there, also through the framework
    let rng = RngSpec::Free(g.u64());
    let calls = gen_history(g, &machines, pf, bf, start, &rng, &hc, &mut local);
    let kinds = count_fault_kinds(&local);
    stats.merge(&local);
    FwCase {
        machines,
        pf,
        bf,
        start,
        rng,
        calls,
        extra: json!({ "fault_kinds": kinds }),
    }
}

// ===========================================================================
// C01 — totality and linear work

pub struct C01;

struct C01Mon {
    actions: u64,
    fault_kinds: u64,
}

impl Monitor for C01Mon {
    fn after_call(
        &mut self,
        case: &FwCase,
        _k: usize,
        call: &Call,
        out: &CallOut,
        stats: &mut Stats,
    ) -> Option<(String, String)> {
        self.actions += out.actions.len() as u64;
        let e = call.ev.len() as u64;
        let m = case.machines.len() as u64;
        let steps = out
            .log
            .iter()
            .filter(|r| matches!(r, Rec::Deliver { .. }))
            .count() as u64;
        let bound = 8 * (e + 1) * (m + 1);
        stats.max(
            "steps_per_bound_permille",
            steps * 1000 / ((e + 1) * (m + 1)),
        );
        stats.max("rng_words_per_call", out.words);
        // probes
        let mlen = case.machines.len() as u64;
        stats.probe_if(
            "unknown_id_event",
            call.ev.iter().any(|x| x.id().map_or(false, |i| i >= mlen)),
        );
        stats.probe_if(
            "machine_ended",
            out.log.iter().any(|r| matches!(r, Rec::Ended { .. })),
        );
        stats.probe_if(
            "limit_reached",
            out.log.iter().any(|r| {
                matches!(
                    r,
                    Rec::Deliver {
                        event: Event::LimitReached,
                        ..
                    }
                )
            }),
        );
        let cz = out
            .log
            .iter()
            .filter(|r| {
                matches!(
                    r,
                    Rec::Deliver {
                        event: Event::CounterZero,
                        ..
                    }
                )
            })
            .count();
        stats.probe_if("counter_zero", cz >= 1);
        stats.probe_if("counter_zero_chain2", cz >= 2);
        stats.probe_if(
            "signal_round",
            out.log.iter().any(|r| matches!(r, Rec::SignalRoundStart)),
        );
        stats.probe_if(
            "counter_saturated_max",
            out.log.iter().any(|r| {
                matches!(r, Rec::Counters { old, new, .. }
                    if (old.0 == u64::MAX && new.0 == u64::MAX) || (old.1 == u64::MAX && new.1 == u64::MAX))
            }),
        );
        if steps > bound {
            return Some((
                "work-bound".into(),
                format!(
                    "{steps} machine steps in one call with {e} events and {m} machines (bound 8*(E+1)*(M+1) = {bound})"
                ),
            ));
        }
        None
    }
    fn nontrivial(&self) -> bool {
        self.actions >= 1 && self.fault_kinds >= 2
    }
}

fn has_binomial_inversion(m: &Machine) -> bool {
    use maybenot::dist::{Dist, DistType};
    let risky = |d: &Dist| match d.dist {
        DistType::Binomial {
            trials,
            probability,
        } => {
            let p = probability.min(1.0 - probability);
            (trials as f64) * p < 10.0 && trials > 0 && p > 0.0
        }
        _ => false,
    };
    m.states.iter().any(|s| {
        let mut ds: Vec<Dist> = vec![];
        match s.action {
            Some(Action::SendPadding { timeout, limit, .. }) => {
                ds.push(timeout);
                ds.extend(limit);
            }
            Some(Action::BlockOutgoing {
                timeout,
                duration,
                limit,
                ..
            }) => {
                ds.push(timeout);
                ds.push(duration);
                ds.extend(limit);
            }
            Some(Action::UpdateTimer {
                duration, limit, ..
            }) => {
                ds.push(duration);
                ds.extend(limit);
            }
            _ => {}
        }
        for c in [s.counter.0, s.counter.1].into_iter().flatten() {
            ds.extend(c.dist);
        }
        ds.iter().any(risky)
    })
}

impl C01 {
    fn gen(&self, g: &mut Gen, stats: &mut Stats) -> FwCase {
        gen_wild_case(g, stats, 6, 400, &|g, mc, _hc| {
            if g.chance(0.3) {
                mc.p_counter = 0.8;
            }
        })
    }
}

impl FwProp for C01 {
    fn info(&self) -> EngineInfo {
        EngineInfo {
            property: "C01",
            engine: "fwsim",
            level: "exploration",
            rule: "case = 0..6 generated machines (det/dyadic/wild families, all 11 distribution families incl. validation corners, counters, limits, pseudo-states) x fractions x start instant x RNG (fair or scripted extreme prefix) x closed-loop history of <=400 calls through the faulty report channel and clock; distinct = hash of the per-call (event kinds, action kinds) sequence; non-trivial = run returned >=1 action and >=2 fault kinds were actually applied".into(),
            assumptions: vec![
                "machine steps are counted from the H1 Deliver records (one per event delivered to a live machine)".into(),
                "hangs are detected by a per-call RNG word budget (2000*(E+1)*(M+1)), a 2 s CPU-time limit per case and the supervisor's wall-clock watchdog".into(),
                "harness profile: release with overflow-checks and debug-assertions for the three repo crates".into(),
            ],
            real_components: FW_REAL.to_vec(),
            stubbed_components: FW_STUB.to_vec(),
            totality: true,
            cpu_limit_s: crate::sup::CASE_CPU_LIMIT_S,
            exhaustive: false,
        }
    }
    fn n_cases(&self, tier: Tier) -> u64 {
        match tier {
            Tier::Quick => 200_000,
            Tier::Thorough => 4_000_000,
        }
    }
    fn generate(&self, g: &mut Gen, _tier: Tier, stats: &mut Stats) -> FwCase {
        self.gen(g, stats)
    }
    fn monitor(&self, case: &FwCase) -> Box<dyn Monitor> {
        Box::new(C01Mon {
            actions: 0,
            fault_kinds: case.extra["fault_kinds"].as_u64().unwrap_or(0),
        })
    }
    fn panic_is_violation(&self) -> bool {
        true
    }
    fn known_finding_crash(&self, seed: u64, _tier: Tier) -> Option<&'static str> {
        // D5: the machines of the case are regenerated without running anything;
        // must mirror the draw order of gen_wild_case up to the machine list
        let _ = seed;
        None
    }
}

// ===========================================================================
// C04 — output contract

pub struct C04;

struct C04Mon {
    ended: Vec<bool>,
    actions: u64,
    saw_clamp: bool,
}

fn sig_of_action(a: &Action) -> (u8, bool, bool, u8) {
    match a {
        Action::Cancel { timer } => (
            0,
            false,
            false,
            match timer {
                Timer::Action => 0,
                Timer::Internal => 1,
                Timer::All => 2,
            },
        ),
        Action::SendPadding {
            bypass, replace, ..
        } => (1, *bypass, *replace, 9),
        Action::BlockOutgoing {
            bypass, replace, ..
        } => (2, *bypass, *replace, 9),
        Action::UpdateTimer { replace, .. } => (3, false, *replace, 9),
    }
}

const DAY_NS: u128 = 86_400_000_000_000;

impl Monitor for C04Mon {
    fn after_call(
        &mut self,
        case: &FwCase,
        _k: usize,
        _call: &Call,
        out: &CallOut,
        stats: &mut Stats,
    ) -> Option<(String, String)> {
        let m = case.machines.len();
        self.actions += out.actions.len() as u64;
        if m == 0 && !out.actions.is_empty() {
            return Some((
                "action-without-machines".into(),
                format!(
                    "framework without machines returned {}",
                    acts_short(&out.actions)
                ),
            ));
        }
        let mut seen = vec![false; m];
        for a in &out.actions {
            if a.machine >= m {
                return Some((
                    "unknown-machine".into(),
                    format!("action names machine {} but there are {m}", a.machine),
                ));
            }
            if seen[a.machine] {
                return Some((
                    "two-actions-one-machine".into(),
                    format!(
                        "machine {} named twice in {}",
                        a.machine,
                        acts_short(&out.actions)
                    ),
                ));
            }
            seen[a.machine] = true;
            let sig = (a.kind, a.bypass, a.replace, a.timer);
            let ok = case.machines[a.machine]
                .states
                .iter()
                .any(|s| s.action.as_ref().map(sig_of_action) == Some(sig));
            if !ok {
                return Some((
                    "foreign-action".into(),
                    format!(
                        "{} has no counterpart (kind, flags, timer) in any state of machine {}",
                        a.short(),
                        a.machine
                    ),
                ));
            }
            if a.timeout_ns > DAY_NS || a.duration_ns > DAY_NS {
                return Some(("over-24h".into(), format!("{} exceeds 24 hours", a.short())));
            }
            if a.timeout_ns == DAY_NS || a.duration_ns == DAY_NS {
                self.saw_clamp = true;
                stats.probe("clamped_to_24h");
            }
            if self.ended[a.machine] {
                return Some((
                    "action-after-end".into(),
                    format!(
                        "machine {} reached END in an earlier call but yields {}",
                        a.machine,
                        a.short()
                    ),
                ));
            }
        }
        stats.probe_if("full_house", m > 1 && out.actions.len() == m);
        // ended status is taken after the call, for later calls
        for (i, ms) in out.snap.machines.iter().enumerate() {
            if ms.current_state == STATE_END && i < m && !self.ended[i] {
                self.ended[i] = true;
                stats.probe("machine_ended");
            }
        }
        for r in &out.log {
            if let Rec::Ended { mi } = r {
                if *mi < m {
                    self.ended[*mi] = true;
                }
            }
        }
        None
    }
    fn nontrivial(&self) -> bool {
        self.actions >= 2
    }
}

impl FwProp for C04 {
    fn info(&self) -> EngineInfo {
        EngineInfo {
            property: "C04",
            engine: "fwsim",
            level: "exploration",
            rule: "case = 0..6 generated machines biased to heavy-tailed / huge timeout and duration distributions and END transitions, batches of 0..64 reports, faulty report channel and clock; distinct = hash of the per-call (event kinds, action kinds) sequence; non-trivial = >=2 actions returned over the run".into(),
            assumptions: vec![
                "a machine counts as ended once the H1 log shows its END transition or the snapshot shows the end state after a call".into(),
            ],
            real_components: FW_REAL.to_vec(),
            stubbed_components: FW_STUB.to_vec(),
            totality: false,
            cpu_limit_s: crate::sup::CASE_CPU_LIMIT_S,
            exhaustive: false,
        }
    }
    fn n_cases(&self, tier: Tier) -> u64 {
        match tier {
            Tier::Quick => 200_000,
            Tier::Thorough => 4_000_000,
        }
    }
    fn generate(&self, g: &mut Gen, _tier: Tier, stats: &mut Stats) -> FwCase {
        gen_wild_case(g, stats, 6, 200, &|g, mc, hc| {
            mc.p_end = *g.pick(&[0.0, 0.05, 0.15]);
            mc.action_w = [1, 2, 4, 4, 3];
            if g.chance(0.5) {
                hc.p_batch = 0.6;
            }
        })
    }
    fn monitor(&self, case: &FwCase) -> Box<dyn Monitor> {
        Box::new(C04Mon {
            ended: vec![false; case.machines.len()],
            actions: 0,
            saw_clamp: false,
        })
    }
}

//! Engine C: stored-artefact fault injection on machine strings (C11).
//!
//! Fault-free channel: serialize -> from_str round trip of generated machines
//! (sizes up to the 1 MiB limit, incompressible parameters), including a
//! behavioural comparison of original and re-parsed machine under engine A.
//! Faulty channel: truncation, bit flips, substitutions, splices, version and
//! charset faults, corruption below the checksum-less compression layer, and
//! high-ratio zlib streams, against `from_str` and the legacy v1 parser, with
//! a counting allocator measuring peak memory.

use crate::common::*;
use crate::fwsim::{self, ActionRec, Call, FwCase, HistCfg};
use crate::mach::{self, Family, MachCfg};
use crate::sup::{catch_sut, panic_class, Engine, EngineInfo, Stats, Tier, Violation};
use base64::prelude::BASE64_STANDARD;
use base64::Engine as _;
use enum_map::enum_map;
use flate2::write::ZlibEncoder;
use flate2::Compression;
use maybenot::action::Action;
use maybenot::dist::{Dist, DistType};
use maybenot::event::Event;
use maybenot::state::{State, Trans};
use maybenot::Machine;
use serde_json::{json, Value};
use std::io::Write;
use std::str::FromStr;
use std::sync::atomic::{AtomicUsize, Ordering};

// ---------------------------------------------------------------------------
// counting allocator

pub struct CountingAlloc;
static LIVE: AtomicUsize = AtomicUsize::new(0);
static PEAK: AtomicUsize = AtomicUsize::new(0);

unsafe impl std::alloc::GlobalAlloc for CountingAlloc {
    unsafe fn alloc(&self, l: std::alloc::Layout) -> *mut u8 {
        let p = std::alloc::System.alloc(l);
        if !p.is_null() {
            let n = LIVE.fetch_add(l.size(), Ordering::Relaxed) + l.size();
            PEAK.fetch_max(n, Ordering::Relaxed);
        }
        p
    }
    unsafe fn dealloc(&self, p: *mut u8, l: std::alloc::Layout) {
        LIVE.fetch_sub(l.size(), Ordering::Relaxed);
        std::alloc::System.dealloc(p, l)
    }
    unsafe fn alloc_zeroed(&self, l: std::alloc::Layout) -> *mut u8 {
        let p = std::alloc::System.alloc_zeroed(l);
        if !p.is_null() {
            let n = LIVE.fetch_add(l.size(), Ordering::Relaxed) + l.size();
            PEAK.fetch_max(n, Ordering::Relaxed);
        }
        p
    }
    unsafe fn realloc(&self, p: *mut u8, l: std::alloc::Layout, new: usize) -> *mut u8 {
        let q = std::alloc::System.realloc(p, l, new);
        if !q.is_null() {
            if new >= l.size() {
                let n = LIVE.fetch_add(new - l.size(), Ordering::Relaxed) + (new - l.size());
                PEAK.fetch_max(n, Ordering::Relaxed);
            } else {
                LIVE.fetch_sub(l.size() - new, Ordering::Relaxed);
            }
        }
        q
    }
}

pub fn live_bytes() -> usize {
    LIVE.load(Ordering::Relaxed)
}
/// peak of live bytes above the level at the start of `f`
pub fn measure_peak<T>(f: impl FnOnce() -> T) -> (T, usize) {
    let base = LIVE.load(Ordering::Relaxed);
    PEAK.store(base, Ordering::Relaxed);
    let r = f();
    let peak = PEAK.load(Ordering::Relaxed);
    (r, peak.saturating_sub(base))
}

/// memory bound claimed for `from_str`: a constant fixed by the 1 MiB limit
/// plus a multiple of the input length
pub const MEM_CONST: usize = 192 << 20;
pub fn mem_bound(input_len: usize) -> usize {
    MEM_CONST + 4 * input_len
}

// ---------------------------------------------------------------------------

pub struct C11;

#[derive(Clone, Debug)]
enum Case {
    /// serialize -> parse -> serialize, and behavioural comparison
    RoundTrip { machine: Machine, hist_seed: u64 },
    /// parse an arbitrary string with the current parser
    Parse { input: String, what: String },
    /// parse a hex string with the legacy v1 parser
    ParseV1 { input: String, what: String },
    /// zlib stream that decompresses to `size` bytes of `fill`, optional valid prefix
    Bomb { size: u64, fill: u8, level: u32 },
    /// every truncation point and every single-bit flip of a small encoding
    Sweep { machine: Machine },
    /// every truncation point of the *payload* below the compression layer
    /// (cut, then re-compressed: a producer that died mid-write), for the current
    /// format (machine) or the legacy v1 format (payload from the harness encoder)
    PayloadSweep { machine: Option<Machine>, v1_payload_hex: String },
    /// a well-formed current-format encoding of a machine that validation must
    /// turn away (one field of a valid machine made invalid): the parser has to
    /// apply the same judgement as Machine::new
    Invalid { machine: Machine, what: String },
}

fn case_json(c: &Case) -> Value {
    match c {
        Case::RoundTrip { machine, hist_seed } => {
            json!({"kind": "roundtrip", "machine": mach::enc(machine),
            "machine_readable": short(&mach::describe(machine)), "states": machine.states.len(), "hist_seed": hist_seed})
        }
        Case::Parse { input, what } => json!({"kind": "parse", "what": what, "input": input}),
        Case::ParseV1 { input, what } => json!({"kind": "parse_v1", "what": what, "input": input}),
        Case::Bomb { size, fill, level } => {
            json!({"kind": "bomb", "size": size, "fill": fill, "level": level})
        }
        Case::Sweep { machine } => {
            json!({"kind": "sweep", "machine": mach::enc(machine), "machine_readable": short(&mach::describe(machine))})
        }
        Case::Invalid { machine, what } => json!({"kind": "invalid", "what": what,
            "machine": mach::enc(machine), "machine_readable": short(&mach::describe(machine))}),
        Case::PayloadSweep { machine, v1_payload_hex } => json!({"kind": "payload_sweep",
            "machine": machine.as_ref().map(mach::enc), "v1_payload_hex": v1_payload_hex}),
    }
}
fn short(s: &str) -> String {
    if s.len() > 600 {
        format!("{}... ({} chars)", &s[..600], s.len())
    } else {
        s.to_string()
    }
}
fn case_from(v: &Value) -> Option<Case> {
    Some(match v["kind"].as_str()? {
        "roundtrip" => Case::RoundTrip {
            machine: mach::dec(v["machine"].as_str()?)?,
            hist_seed: v["hist_seed"].as_u64()?,
        },
        "parse" => Case::Parse {
            input: v["input"].as_str()?.to_string(),
            what: v["what"].as_str().unwrap_or("").to_string(),
        },
        "parse_v1" => Case::ParseV1 {
            input: v["input"].as_str()?.to_string(),
            what: v["what"].as_str().unwrap_or("").to_string(),
        },
        "bomb" => Case::Bomb {
            size: v["size"].as_u64()?,
            fill: v["fill"].as_u64()? as u8,
            level: v["level"].as_u64()? as u32,
        },
        "sweep" => Case::Sweep {
            machine: mach::dec(v["machine"].as_str()?)?,
        },
        "invalid" => Case::Invalid {
            machine: mach::dec(v["machine"].as_str()?)?,
            what: v["what"].as_str().unwrap_or("").to_string(),
        },
        "payload_sweep" => Case::PayloadSweep {
            machine: v["machine"].as_str().and_then(mach::dec),
            v1_payload_hex: v["v1_payload_hex"].as_str().unwrap_or("").to_string(),
        },
        _ => return None,
    })
}

fn encoded_len(m: &Machine) -> u64 {
    use bincode::Options;
    bincode::DefaultOptions::new()
        .serialized_size(m)
        .unwrap_or(u64::MAX)
}

/// machine with many states and incompressible parameters
fn big_machine(g: &mut Gen, n_states: usize) -> Machine {
    let mut states = Vec::with_capacity(n_states);
    for _ in 0..n_states {
        let mut t = enum_map! { _ => vec![] };
        if g.chance(0.7) {
            t[Event::NormalSent] = vec![Trans(g.usize(n_states.min(16)), (g.f01() as f32).max(1e-6))];
        }
        if g.chance(0.3) {
            t[Event::PaddingSent] = vec![Trans(g.usize(n_states.min(16)), 1.0)];
        }
        let mut s = State::new(t);
        if g.chance(0.97) {
            // parameters with random mantissas: next to incompressible
            let rf = |g: &mut Gen| -> f64 {
                // any positive finite double: 63 random bits
                let mut b = g.u64() >> 1;
                if (b >> 52) == 0x7ff {
                    b &= !(1u64 << 52);
                }
                f64::from_bits(b)
            };
            let rd = |g: &mut Gen| {
                Dist::new(
                    DistType::Normal {
                        mean: rf(g),
                        stdev: rf(g),
                    },
                    rf(g),
                    rf(g),
                )
            };
            s.action = Some(match g.below(3) {
                0 => Action::SendPadding {
                    bypass: g.bool(),
                    replace: g.bool(),
                    timeout: rd(g),
                    limit: if g.bool() { Some(rd(g)) } else { None },
                },
                1 => Action::BlockOutgoing {
                    bypass: g.bool(),
                    replace: g.bool(),
                    timeout: rd(g),
                    duration: rd(g),
                    limit: None,
                },
                _ => Action::UpdateTimer {
                    replace: g.bool(),
                    duration: rd(g),
                    limit: Some(rd(g)),
                },
            });
        }
        states.push(s);
    }
    // all transition targets are < 16 (see above), so any prefix of >= 16 states
    // is a valid machine: take the longest prefix that fits the 1 MiB limit
    let (a0, a1, a2, a3) = (g.u64(), g.f01(), g.u64(), g.f01());
    let build = |n: usize| Machine::new(a0, a1, a2, a3, states[..n].to_vec());
    let limit = (1u64 << 20) - 64;
    let mut n = n_states;
    if let Ok(m) = build(n) {
        let len = encoded_len(&m);
        if len <= limit {
            return m;
        }
        n = ((n as u64 * limit / len) as usize).max(16);
    }
    loop {
        match build(n) {
            Ok(m) if encoded_len(&m) <= limit => return m,
            _ => n = (n - (n / 200).max(1)).max(16),
        }
    }
}

fn small_machine(g: &mut Gen) -> Machine {
    let fam = *g.pick(&[Family::Det, Family::Dyadic, Family::Wild, Family::Wild]);
    let mut mc = MachCfg::new(fam);
    mc.max_states = 1 + g.usize(5);
    mc.p_trans = *g.pick(&[0.1, 0.3, 0.6]);
    mc.p_counter = 0.4;
    mc.p_limit = 0.5;
    mach::gen_machine(g, &mc)
}

fn gen_machine_for_roundtrip(g: &mut Gen, stats: &mut Stats) -> Machine {
    match g.below(40) {
        0 => {
            stats.probe("machine_crossing_32KiB_compressed");
            let n = *g.pick(&[900, 1500, 2500]);
            big_machine(g, n)
        }
        1 => {
            stats.probe("machine_crossing_256KiB_compressed");
            let n = *g.pick(&[9000, 14000]);
            big_machine(g, n)
        }
        2 => {
            stats.probe("machine_near_1MiB_limit");
            big_machine(g, 60000)
        }
        4 => {
            // as many states as a 1 MiB payload can describe (16 bytes each):
            // the largest in-memory machine the parser can be made to build
            stats.probe("machine_max_state_count");
            let n = *g.pick(&[30_000usize, 65_000]);
            let st = State::new(enum_map! { _ => vec![] });
            let mut states = vec![st; n];
            loop {
                match Machine::new(0, 0.0, 0, 0.0, states.clone()) {
                    Ok(m) if encoded_len(&m) <= (1 << 20) - 64 => break m,
                    _ => states.truncate(states.len() * 9 / 10),
                }
            }
        }
        3 => {
            // extreme numeric fields
            let mut m = small_machine(g);
            m.allowed_padding_packets = u64::MAX;
            m.allowed_blocked_microsec = u64::MAX;
            m.max_padding_frac = 1.0;
            m.max_blocking_frac = f64::MIN_POSITIVE;
            m
        }
        _ => small_machine(g),
    }
}

// ---- corruption catalogue

fn corrupt(g: &mut Gen, base: &str, other: &str, stats: &mut Stats) -> (String, String) {
    let mut b: Vec<u8> = base.as_bytes().to_vec();
    let kind = g.below(14);
    let what = match kind {
        12 => {
            // very short strings around the 3-byte length guard and the 2-byte version prefix:
            // blanks, line ends, version digits, base64 symbols (a parser that trims after its
            // length check indexes past the end on these)
            let n = g.usize(7);
            b = (0..n).map(|_| *g.pick(b" \t\r\n\x0b\x0c0012=A/+\0")).collect();
            "short_string"
        }
        13 => {
            // a well-formed encoding framed by blanks / line ends: before, after, both, or
            // between the version prefix and the payload
            let ws = *g.pick(&[" ", "\n", "\r\n", "\t", "  ", " \n "]);
            let mut out: Vec<u8> = vec![];
            match g.below(4) {
                0 => { out.extend(ws.as_bytes()); out.extend(&b); }
                1 => { out.extend(&b); out.extend(ws.as_bytes()); }
                2 => { out.extend(ws.as_bytes()); out.extend(&b); out.extend(ws.as_bytes()); }
                _ => {
                    let k = 2.min(b.len());
                    out.extend(&b[..k]); out.extend(ws.as_bytes()); out.extend(&b[k..]);
                }
            }
            b = out;
            "whitespace_framing"
        }
        0 => {
            let n = g.usize(b.len() + 1);
            b.truncate(n);
            "truncate"
        }
        1 => {
            if !b.is_empty() {
                let i = g.usize(b.len());
                b[i] ^= 1 << g.below(7);
            }
            "bit_flip"
        }
        2 => {
            for _ in 0..1 + g.usize(8) {
                if !b.is_empty() {
                    let i = g.usize(b.len());
                    b[i] ^= 1 << g.below(8);
                }
            }
            "multi_bit_flip"
        }
        3 => {
            if !b.is_empty() {
                let i = g.usize(b.len());
                b[i] = *g.pick(b"AZaz09+/=!\0 \n\xff");
            }
            "byte_substitution"
        }
        4 => {
            if b.len() > 4 {
                let i = g.usize(b.len() - 1);
                let n = 1 + g.usize((b.len() - i).min(64));
                b.drain(i..(i + n).min(b.len()));
            }
            "chunk_deletion"
        }
        5 => {
            if b.len() > 4 {
                let i = g.usize(b.len() - 1);
                let n = 1 + g.usize((b.len() - i).min(64));
                let chunk: Vec<u8> = b[i..(i + n).min(b.len())].to_vec();
                let j = g.usize(b.len());
                for (k, c) in chunk.iter().enumerate() {
                    b.insert(j + k, *c);
                }
            }
            "chunk_duplication"
        }
        6 => {
            let o = other.as_bytes();
            let i = g.usize(b.len() + 1);
            let j = g.usize(o.len() + 1);
            b.truncate(i);
            b.extend_from_slice(&o[j..]);
            "splice_two_encodings"
        }
        7 => {
            let v = *g.pick(&["00", "01", "03", "2", "99", "0", "-2", " 2", "02 "]);
            let rest: Vec<u8> = b.iter().skip(2).copied().collect();
            b = v.as_bytes().to_vec();
            b.extend(rest);
            "wrong_version"
        }
        8 => {
            // multi-byte characters, also straddling the two-byte version prefix
            let ins = *g.pick(&["é", "0é", "€", "𝄞", "\u{7f}", "２"]);
            let i = *g.pick(&[0usize, 1, 2, 3]).min(&b.len());
            let mut s = String::from_utf8_lossy(&b[..i]).to_string();
            s.push_str(ins);
            s.push_str(&String::from_utf8_lossy(&b[i..]));
            stats.fault("non_ascii");
            return (s, "non_ascii".into());
        }
        9 => {
            // corruption below the compression layer: a corrupt producer
            if let Ok(raw) = BASE64_STANDARD.decode(&base.as_bytes()[2.min(base.len())..]) {
                use std::io::Read;
                let mut d = flate2::read::ZlibDecoder::new(raw.as_slice());
                let mut payload = vec![];
                if d.read_to_end(&mut payload).is_ok() && !payload.is_empty() {
                    for _ in 0..1 + g.usize(4) {
                        let i = g.usize(payload.len());
                        match g.below(3) {
                            0 => payload[i] ^= 1 << g.below(8),
                            1 => {
                                payload[i] =
                                    *g.pick(&[0u8, 1, 0xff, 0xfe, 0x7f, 0x80, 251, 252, 253])
                            }
                            _ => {
                                payload.truncate(i);
                                if payload.is_empty() {
                                    payload.push(0);
                                }
                            }
                        }
                    }
                    let mut e = ZlibEncoder::new(Vec::new(), Compression::fast());
                    let _ = e.write_all(&payload);
                    let z = e.finish().unwrap_or_default();
                    stats.fault("corrupt_payload_recompressed");
                    return (
                        format!("02{}", BASE64_STANDARD.encode(z)),
                        "corrupt_payload_recompressed".into(),
                    );
                }
            }
            "corrupt_payload_failed"
        }
        10 => {
            let n = g.usize(200);
            b = (0..n).map(|_| g.below(256) as u8).collect();
            "random_bytes"
        }
        _ => {
            let n = g.usize(300);
            let alphabet = b"ABCDEFGHIJKLMNOPQRSTUVWXYZabcdefghijklmnopqrstuvwxyz0123456789+/=";
            b = b"02".to_vec();
            b.extend((0..n).map(|_| *g.pick(alphabet)));
            "random_base64"
        }
    };
    stats.fault(what);
    (String::from_utf8_lossy(&b).to_string(), what.to_string())
}

// ---- legacy v1 encoder (harness side; the repo only has the parser)

fn v1_dist(buf: &mut Vec<u8>, ty: u16, p1: f64, p2: f64, start: f64, max: f64) {
    buf.extend(ty.to_le_bytes());
    for x in [p1, p2, start, max] {
        buf.extend(x.to_le_bytes());
    }
}

fn v1_payload(g: &mut Gen, valid: bool) -> Vec<u8> {
    let n = 1 + g.usize(4);
    let mut p: Vec<u8> = vec![];
    p.extend(1u16.to_le_bytes());
    p.extend(g.below(1000).to_le_bytes());
    p.extend(
        (if valid {
            g.f01()
        } else {
            *g.pick(&[f64::NAN, -1.0, 2.0, 0.5])
        })
        .to_le_bytes(),
    );
    p.extend(g.below(1000).to_le_bytes());
    p.extend(g.f01().to_le_bytes());
    p.push(g.below(2) as u8);
    p.extend((n as u16).to_le_bytes());
    for _ in 0..n {
        // duration, limit, timeout
        for _ in 0..3 {
            let ty = if valid {
                *g.pick(&[0u16, 1, 1, 2, 6, 8])
            } else {
                g.below(14) as u16
            };
            let a = g.f01() * 100.0;
            v1_dist(&mut p, ty, a, a + g.f01() * 100.0 + 0.1, 0.0, 0.0);
        }
        for _ in 0..4 {
            p.push(g.below(2) as u8);
        }
        // (events + 1) rows of (n + 2) probabilities
        for row in 0..8 {
            let mut left = 1.0f64;
            for col in 0..n + 2 {
                let v = if row < 7 && col != n && g.chance(0.3) {
                    let x = (g.f01() * left * 0.9 * 64.0).floor() / 64.0;
                    left -= x;
                    x
                } else if !valid && g.chance(0.05) {
                    *g.pick(&[f64::NAN, 2.0, -0.5, 1e-300])
                } else {
                    0.0
                };
                p.extend(v.to_le_bytes());
            }
        }
    }
    p
}

fn zlib(p: &[u8]) -> Vec<u8> {
    let mut e = ZlibEncoder::new(Vec::new(), Compression::default());
    let _ = e.write_all(p);
    e.finish().unwrap_or_default()
}

fn v1_encode(g: &mut Gen, valid: bool) -> String {
    hex::encode(zlib(&v1_payload(g, valid)))
}

// ---------------------------------------------------------------------------

/// parse a fixed small valid machine string; Some(true) = parsed and
/// re-serialized identically, None = panic
fn reference_parse() -> Option<bool> {
    let mut mc = MachCfg::new(Family::Dyadic);
    mc.max_states = 3;
    mc.p_counter = 0.5;
    let m = mach::gen_machine(&mut Gen::new(0x5eed_0011), &mc);
    catch_sut(|| {
        let s = m.serialize();
        match Machine::from_str(&s) {
            Ok(m2) => m2.serialize() == s,
            Err(_) => false,
        }
    })
    .ok()
}

fn drive(m: &Machine, calls: &[Call], seed: u64) -> Result<Vec<Vec<ActionRec>>, String> {
    let case = FwCase {
        machines: vec![m.clone()],
        pf: 0.5,
        bf: 0.5,
        start: 0,
        rng: RngSpec::Free(seed),
        calls: vec![],
        extra: Value::Null,
    };
    let mut fw = case.build()?;
    let mut out = vec![];
    for (k, c) in calls.iter().enumerate() {
        out.push(fwsim::do_call(&mut fw, &case, k, c)?.actions);
    }
    Ok(out)
}

impl C11 {
    fn check_parsed(
        &self,
        r: Result<Result<Machine, maybenot::Error>, String>,
        input_desc: &str,
        v: &mut Vec<(String, String)>,
        stats: &mut Stats,
    ) {
        match r {
            Err(p) => v.push((
                panic_class(&p),
                format!("parser panicked on {input_desc}: {p}"),
            )),
            Ok(Err(_)) => stats.inc("rejected"),
            Ok(Ok(m)) => {
                stats.inc("accepted");
                match catch_sut(|| m.validate()) {
                    Ok(Ok(())) => {}
                    Ok(Err(e)) => v.push((
                        "accepted-invalid-machine".into(),
                        format!(
                            "parser accepted {input_desc} but the machine fails validation: {e}"
                        ),
                    )),
                    Err(p) => v.push((panic_class(&p), format!("validate panicked: {p}"))),
                }
            }
        }
    }

    /// Every case runs on a thread of its own, so that whatever state a parser
    /// keeps per thread between calls starts fresh and a violation replays from
    /// its own file; within the case, a small valid reference string is parsed
    /// before and after the case's inputs: parsing is a function of the string,
    /// so a reference that parsed before must still parse, identically, after a
    /// hostile input has been rejected (history independence of the parser).
    fn run(&self, c: &Case, stats: &mut Stats) -> Vec<(String, String)> {
        let r = std::thread::scope(|sc| {
            std::thread::Builder::new()
                .stack_size(64 << 20)
                .spawn_scoped(sc, || {
                    let before = reference_parse();
                    let mut v = self.run_inner(c, stats);
                    if v.is_empty() && before == Some(true) {
                        stats.probe("reference_parsed_before_and_after_the_case");
                        if reference_parse() != Some(true) {
                            v.push((
                                "history-dependent-parse".into(),
                                "a valid reference string that parsed and round-tripped before this case's inputs no longer does after them, on the same thread".into(),
                            ));
                        }
                    }
                    v
                })
                .expect("spawn")
                .join()
        });
        match r {
            Ok(v) => v,
            Err(_) => vec![(
                "harness-thread".into(),
                "the case thread panicked outside the guarded calls".into(),
            )],
        }
    }

    fn run_inner(&self, c: &Case, stats: &mut Stats) -> Vec<(String, String)> {
        let mut v: Vec<(String, String)> = vec![];
        match c {
            Case::RoundTrip { machine, hist_seed } => {
                stats.inc("roundtrips");
                let s1 = match catch_sut(|| machine.serialize()) {
                    Ok(s) => s,
                    Err(p) => {
                        v.push((
                            panic_class(&p),
                            format!("serialize panicked on a machine within the size limit: {p}"),
                        ));
                        return v;
                    }
                };
                stats.max("max_string_len", s1.len() as u64);
                let (parsed, peak) = measure_peak(|| catch_sut(|| Machine::from_str(&s1)));
                stats.max("max_peak_bytes_valid_input", peak as u64);
                if peak > mem_bound(s1.len()) {
                    v.push((
                        "memory-bound".into(),
                        format!(
                            "from_str used {peak} bytes on a valid {}-char string (bound {})",
                            s1.len(),
                            mem_bound(s1.len())
                        ),
                    ));
                }
                let m2 = match parsed {
                    Err(p) => {
                        v.push((
                            panic_class(&p),
                            format!("from_str panicked on its own output: {p}"),
                        ));
                        return v;
                    }
                    Ok(Err(e)) => {
                        v.push((
                            "roundtrip-rejected".into(),
                            format!(
                                "from_str(serialize(m)) failed for a valid machine with {} states (string of {} chars, encoded {} bytes): {e}",
                                machine.states.len(),
                                s1.len(),
                                encoded_len(machine)
                            ),
                        ));
                        return v;
                    }
                    Ok(Ok(m)) => m,
                };
                let s2 = m2.serialize();
                if s1 != s2 {
                    v.push((
                        "roundtrip-not-identical".into(),
                        format!(
                            "re-serialized string differs (lengths {} vs {})",
                            s1.len(),
                            s2.len()
                        ),
                    ));
                    return v;
                }
                if machine.name() != m2.name() {
                    v.push(("roundtrip-name".into(), "names differ".into()));
                }
                // behavioural clause: restart from strings under engine A
                if machine.states.len() <= 3000 {
                    let mut g = Gen::new(*hist_seed);
                    let mut local = Stats::default();
                    let hc = HistCfg::swarm(&mut g, 120);
                    let rng = RngSpec::Free(*hist_seed);
                    let calls = fwsim::gen_history(
                        &mut g,
                        &[machine.clone()],
                        0.5,
                        0.5,
                        0,
                        &rng,
                        &hc,
                        &mut local,
                    );
                    stats.fault("restart_from_strings");
                    match (
                        drive(machine, &calls, *hist_seed),
                        drive(&m2, &calls, *hist_seed),
                    ) {
                        (Ok(a), Ok(b)) => {
                            if let Some(k) = (0..a.len()).find(|k| a[*k] != b[*k]) {
                                v.push((
                                    "roundtrip-behaviour".into(),
                                    format!("original and re-parsed machine diverge at call {k}: {} vs {}", fwsim::acts_short(&a[k]), fwsim::acts_short(&b[k])),
                                ));
                            }
                            stats.add("calls", a.len() as u64);
                        }
                        _ => stats.inc("aborted_in_sut"),
                    }
                }
            }
            Case::Parse { input, what } => {
                stats.inc("hostile_inputs");
                let (r, peak) = measure_peak(|| catch_sut(|| Machine::from_str(input)));
                stats.max("max_peak_bytes_hostile_input", peak as u64);
                if peak > mem_bound(input.len()) {
                    v.push((
                        "memory-bound".into(),
                        format!(
                            "from_str used {peak} bytes on a {}-char input ({what}), bound {}",
                            input.len(),
                            mem_bound(input.len())
                        ),
                    ));
                }
                self.check_parsed(
                    r,
                    &format!("a {what} input of {} chars", input.len()),
                    &mut v,
                    stats,
                );
            }
            Case::ParseV1 { input, what } => {
                stats.inc("v1_inputs");
                let r = catch_sut(|| maybenot::parsing::parse_v1_machine(input));
                self.check_parsed(
                    r,
                    &format!("a v1 {what} input of {} chars", input.len()),
                    &mut v,
                    stats,
                );
            }
            Case::Bomb { size, fill, level } => {
                stats.inc("bombs");
                stats.fault("zlib_bomb");
                let mut e = ZlibEncoder::new(Vec::new(), Compression::new(*level));
                let chunk = vec![*fill; 1 << 20];
                let mut left = *size;
                while left > 0 {
                    let n = left.min(chunk.len() as u64) as usize;
                    let _ = e.write_all(&chunk[..n]);
                    left -= n as u64;
                }
                let z = e.finish().unwrap_or_default();
                let input = format!("02{}", BASE64_STANDARD.encode(&z));
                stats.max("max_bomb_ratio", *size / (input.len() as u64).max(1));
                let (r, peak) = measure_peak(|| catch_sut(|| Machine::from_str(&input)));
                stats.max("max_peak_bytes_bomb", peak as u64);
                if peak > mem_bound(input.len()) {
                    v.push((
                        "memory-bound".into(),
                        format!(
                            "from_str used {peak} bytes on a {}-char input that decompresses to {size} bytes (bound {})",
                            input.len(),
                            mem_bound(input.len())
                        ),
                    ));
                }
                self.check_parsed(
                    r,
                    &format!("a zlib bomb ({size} bytes from {} chars)", input.len()),
                    &mut v,
                    stats,
                );
            }
            Case::PayloadSweep { machine, v1_payload_hex } => {
                stats.inc("payload_sweeps");
                match machine {
                    Some(m) => {
                        use bincode::Options;
                        let Ok(payload) = bincode::DefaultOptions::new().serialize(m) else {
                            return v;
                        };
                        if payload.len() > 600 {
                            return v;
                        }
                        for n in 0..=payload.len() {
                            let inp = format!("02{}", BASE64_STANDARD.encode(zlib(&payload[..n])));
                            let r = catch_sut(|| Machine::from_str(&inp));
                            self.check_parsed(r, &format!("payload truncated to {n} of {} bytes and re-compressed", payload.len()), &mut v, stats);
                            stats.fault("payload_truncate_every_offset");
                        }
                    }
                    None => {
                        let Ok(payload) = hex::decode(v1_payload_hex) else {
                            return v;
                        };
                        for n in 0..=payload.len().min(2000) {
                            let inp = hex::encode(zlib(&payload[..n]));
                            let r = catch_sut(|| maybenot::parsing::parse_v1_machine(&inp));
                            self.check_parsed(r, &format!("v1 payload truncated to {n} of {} bytes and re-compressed", payload.len()), &mut v, stats);
                            stats.fault("v1_payload_truncate_every_offset");
                            if v.len() > 3 {
                                break;
                            }
                        }
                    }
                }
            }
            Case::Invalid { machine, what } => {
                stats.inc("well_formed_invalid_machines");
                stats.fault(&format!("invalid_field.{what}"));
                let accepted_by_validation =
                    catch_sut(|| machine.validate()).map_or(true, |r| r.is_ok());
                let Ok(s) = catch_sut(|| machine.serialize()) else {
                    return v;
                };
                let r = catch_sut(|| Machine::from_str(&s));
                if accepted_by_validation {
                    // the corruption is one validation lets through (a harmless corner
                    // value on the unchanged tree): what the parser then hands out has
                    // to be usable - "rejected safely" is void if the accepted machine
                    // brings the framework down on its first events
                    stats.inc("invalid_case_was_valid");
                    if let Ok(Ok(m2)) = &r {
                        let calls: Vec<Call> = (0..30u64)
                            .map(|i| Call {
                                now: i * 1_000_000,
                                ev: vec![match i % 10 {
                                    0 => fwsim::Ev::NR,
                                    1 => fwsim::Ev::PR,
                                    2 => fwsim::Ev::TR,
                                    3 => fwsim::Ev::NS,
                                    4 => fwsim::Ev::PS(0),
                                    5 => fwsim::Ev::TS,
                                    6 => fwsim::Ev::BB(0),
                                    7 => fwsim::Ev::BE,
                                    8 => fwsim::Ev::TB(0),
                                    _ => fwsim::Ev::TE(0),
                                }],
                            })
                            .collect();
                        if let Err(p) = drive(m2, &calls, 7) {
                            v.push((
                                "accepted-machine-crashes-framework".into(),
                                format!("the parser accepted the well-formed encoding of a machine with an invalid field ({what}), validation accepts it too, and the framework fails on it within 30 events: {p}"),
                            ));
                        }
                    }
                    return v;
                }
                self.check_parsed(
                    r,
                    &format!("the well-formed encoding of a machine with an invalid field ({what})"),
                    &mut v,
                    stats,
                );
            }
            Case::Sweep { machine } => {
                let s = machine.serialize();
                if s.len() > 400 {
                    return v;
                }
                stats.inc("exhaustive_sweeps");
                let bytes = s.as_bytes();
                for n in 0..bytes.len() {
                    let inp = String::from_utf8_lossy(&bytes[..n]).to_string();
                    let r = catch_sut(|| Machine::from_str(&inp));
                    self.check_parsed(r, &format!("truncation to {n} chars"), &mut v, stats);
                    stats.fault("truncate_every_offset");
                }
                for i in 0..bytes.len() {
                    for bit in 0..8 {
                        let mut b = bytes.to_vec();
                        b[i] ^= 1 << bit;
                        let inp = String::from_utf8_lossy(&b).to_string();
                        let r = catch_sut(|| Machine::from_str(&inp));
                        self.check_parsed(
                            r,
                            &format!("bit {bit} of char {i} flipped"),
                            &mut v,
                            stats,
                        );
                        stats.fault("bit_flip_every_position");
                    }
                    if v.len() > 3 {
                        break;
                    }
                }
            }
        }
        v
    }

    fn gen(&self, g: &mut Gen, tier: Tier, stats: &mut Stats) -> Case {
        match g.below(100) {
            0..=29 => Case::RoundTrip {
                machine: gen_machine_for_roundtrip(g, stats),
                hist_seed: g.u64(),
            },
            30..=33 => {
                let base = small_machine(g);
                let (machine, what) = mach::invalidate(g, base);
                Case::Invalid { machine, what }
            }
            34..=74 => {
                let base = if g.chance(0.03) {
                    let n = *g.pick(&[300, 1200]);
                    big_machine(g, n)
                } else {
                    small_machine(g)
                };
                let other = small_machine(g);
                let (input, what) = corrupt(g, &base.serialize(), &other.serialize(), stats);
                Case::Parse { input, what }
            }
            75..=86 => {
                let valid = g.chance(0.4);
                let mut input = v1_encode(g, valid);
                let mut what = if valid {
                    "well-formed".to_string()
                } else {
                    "malformed-fields".to_string()
                };
                if g.chance(0.5) {
                    // byte-level faults on the hex string
                    let mut b = input.into_bytes();
                    match g.below(4) {
                        0 => {
                            let n = g.usize(b.len() + 1);
                            b.truncate(n);
                        }
                        1 => {
                            if !b.is_empty() {
                                let i = g.usize(b.len());
                                b[i] = *g.pick(b"0123456789abcdefgXZ ");
                            }
                        }
                        2 => {
                            // corrupt below the compression layer: wrong version
                            let mut p = vec![];
                            p.extend((*g.pick(&[0u16, 2, 3, 0xffff])).to_le_bytes());
                            p.extend(vec![0u8; g.usize(100)]);
                            let mut e = ZlibEncoder::new(Vec::new(), Compression::default());
                            let _ = e.write_all(&p);
                            b = hex::encode(e.finish().unwrap_or_default()).into_bytes();
                        }
                        _ => {
                            b = (0..g.usize(64))
                                .map(|_| *g.pick(b"0123456789abcdef"))
                                .collect();
                        }
                    }
                    input = String::from_utf8_lossy(&b).to_string();
                    what += "+byte-fault";
                    stats.fault("v1_byte_fault");
                }
                Case::ParseV1 { input, what }
            }
            87..=90 => {
                if g.bool() {
                    Case::PayloadSweep {
                        machine: Some(small_machine(g)),
                        v1_payload_hex: String::new(),
                    }
                } else {
                    let valid = g.chance(0.7);
                    Case::PayloadSweep {
                        machine: None,
                        v1_payload_hex: hex::encode(v1_payload(g, valid)),
                    }
                }
            }
            91..=96 => Case::Sweep {
                machine: {
                    let mut mc = MachCfg::new(Family::Det);
                    mc.max_states = 2;
                    mc.p_trans = 0.15;
                    mc.p_counter = 0.1;
                    mc.p_limit = 0.2;
                    mach::gen_machine(g, &mc)
                },
            },
            _ => {
                let sizes: &[u64] = match tier {
                    Tier::Quick => &[2 << 20, 16 << 20, 64 << 20, 256 << 20],
                    Tier::Thorough => &[2 << 20, 64 << 20, 256 << 20, 512 << 20, 1 << 30],
                };
                Case::Bomb {
                    size: *g.pick(sizes),
                    fill: *g.pick(&[0u8, 0, 0xff, 0x41]),
                    level: *g.pick(&[1, 6, 9]),
                }
            }
        }
    }
}

impl Engine for C11 {
    fn info(&self) -> EngineInfo {
        EngineInfo {
            property: "C11",
            engine: "codec",
            level: "fault_enumeration",
            rule: "case kinds: (30%) round trip of a generated valid machine - all action/distribution/counter variants, 1..60000 states, incompressible parameters so that the compressed payload crosses 32 KiB and 256 KiB and the encoding approaches 1 MiB, extreme numeric fields - with string identity, name identity and a behavioural comparison (original vs re-parsed machine driven by the same fault-injected closed-loop history, 'restart from strings'); (45%) one fault from the catalogue applied to a valid encoding: truncation, single/multi bit flip, byte substitution, chunk deletion/duplication, splice of two encodings, wrong version, non-ASCII/multi-byte characters also straddling the version prefix, corruption below the compression layer (payload mutated then re-compressed), random bytes, random base64, strings of 0..6 blanks / line ends / version digits / base64 symbols (below and at the parser's own length guards), a valid encoding framed by blanks or line ends; (12%) legacy v1 parser on harness-encoded well-formed / malformed-field / byte-faulted hex strings; (6%) exhaustive sweep of EVERY truncation point and EVERY single-bit flip of a small encoding (<= 400 chars); (4%) exhaustive sweep of every truncation point of the PAYLOAD below the compression layer (cut, then re-compressed) for the current format and for the legacy v1 format; (3%) zlib bombs decompressing to 2 MiB..256 MiB (thorough: ..1 GiB) with peak memory measured by a counting global allocator. Oracle: Err or a machine that validates, never a panic/abort; peak live bytes <= 192 MiB + 4*len(input). Exhaustive only inside each sweep case; distinct = hash of the input string / machine; non-trivial = every case (each feeds the parser)".into(),
            assumptions: vec![
                "honest scoping: the round trip is the no-fault baseline of the channel (input generation); truncation/bit-flip sweeps and payload corruption are the stored-artefact faults".into(),
                "memory constant 192 MiB covers the 1 MiB buffer plus the largest in-memory machine a 1 MiB payload can describe (about 65500 states x 576 B, doubled for Vec growth)".into(),
                "serialize() is only called on machines whose bincode size is below the 1 MiB limit (it panics above it, which is outside the property)".into(),
                "the v1 parser's memory use is not bounded by the property and is not measured".into(),
            ],
            real_components: vec![
                "maybenot::Machine::serialize / from_str / name / validate",
                "maybenot::parsing::parse_v1_machine",
                "flate2, base64, bincode as used by the repo",
                "maybenot::Framework (behavioural clause)",
            ],
            stubbed_components: vec!["corruption injector", "harness-side v1 encoder", "counting global allocator"],
            totality: true,
            cpu_limit_s: 30,
            exhaustive: false,
        }
    }
    fn n_cases(&self, tier: Tier) -> u64 {
        match tier {
            Tier::Quick => 8_000,
            Tier::Thorough => 150_000,
        }
    }
    fn run_case(&self, k: u64, seed: u64, tier: Tier, stats: &mut Stats) -> Vec<Violation> {
        let mut g = Gen::new(seed);
        let c = self.gen(&mut g, tier, stats);
        let cj = case_json(&c);
        if k < 3 {
            let mut s = cj.clone();
            if let Some(i) = s.get("input").and_then(|x| x.as_str()).map(|x| x.len()) {
                if i > 300 {
                    s["input"] = json!(format!("({} chars)", i));
                }
            }
            s["machine"] = Value::Null;
            stats.samples.push(s);
        }
        let mut h = Fnv::default();
        h.bytes(cj.to_string().as_bytes());
        stats.shapes.insert(h.0);
        self.run(&c, stats)
            .into_iter()
            .map(|(cl, d)| Violation::new(&cl, d, Some(cj.clone())))
            .collect()
    }
    fn replay(&self, case: &Value, stats: &mut Stats) -> Vec<Violation> {
        match case_from(case) {
            Some(c) => self
                .run(&c, stats)
                .into_iter()
                .map(|(cl, d)| Violation::new(&cl, d, Some(case.clone())))
                .collect(),
            None => vec![],
        }
    }
    fn shrink(&self, case: &Value) -> Vec<Value> {
        let Some(c) = case_from(case) else {
            return vec![];
        };
        let mut out = vec![];
        match c {
            Case::RoundTrip { machine, hist_seed } => {
                // fewer states first
                let n = machine.states.len();
                if n > 1 {
                    for keep in [n / 2, n * 3 / 4, n - 1] {
                        if keep >= 1 && keep < n {
                            let states: Vec<State> = machine.states[..keep]
                                .iter()
                                .map(|s| {
                                    let tr = s.get_transitions();
                                    let mut t2 = enum_map! { _ => vec![] };
                                    for e in mach::ALL_EVENTS {
                                        let mut seen = vec![];
                                        for x in &tr[e] {
                                            let tgt = if x.0 >= n { x.0 } else { x.0 % keep };
                                            if !seen.contains(&tgt) {
                                                seen.push(tgt);
                                                t2[e].push(Trans(tgt, x.1));
                                            }
                                        }
                                    }
                                    let mut s2 = State::new(t2);
                                    s2.action = s.action;
                                    s2.counter = s.counter;
                                    s2
                                })
                                .collect();
                            if let Ok(m) = Machine::new(
                                machine.allowed_padding_packets,
                                machine.max_padding_frac,
                                machine.allowed_blocked_microsec,
                                machine.max_blocking_frac,
                                states,
                            ) {
                                out.push(Case::RoundTrip {
                                    machine: m,
                                    hist_seed,
                                });
                            }
                        }
                    }
                }
                if n <= 8 {
                    for m in mach::shrink_machine(&machine) {
                        out.push(Case::RoundTrip {
                            machine: m,
                            hist_seed,
                        });
                    }
                }
            }
            Case::Parse { input, what } => {
                let b = input.as_bytes();
                if b.len() > 3 {
                    for cut in [b.len() / 2, b.len() - 1] {
                        out.push(Case::Parse {
                            input: String::from_utf8_lossy(&b[..cut]).to_string(),
                            what: what.clone(),
                        });
                    }
                }
            }
            Case::Bomb { size, fill, level } => {
                if size > (2 << 20) {
                    out.push(Case::Bomb {
                        size: size / 2,
                        fill,
                        level,
                    });
                }
            }
            _ => {}
        }
        out.iter().map(case_json).collect()
    }
}

//! Exact judge for C17 / C18 on top of the H2b expiry records.
//!
//! The H2 log alone shows when an event is *handed to a framework*; a
//! PaddingSent / BlockingBegin / TimerEnd sits in the simulator's queue between
//! the expiry of its timer and that moment, and other events of the same instant
//! may be processed in between. The tolerant model in props_simtimers.rs
//! therefore has to accept both orders whenever an action is superseded or
//! cancelled at its own due instant. H2b logs the expiry itself
//! (`Rec::ActionFired`, `Rec::TimerFired`), so here nothing is ambiguous:
//!
//! * an action timer may only expire for the action that is pending for that
//!   machine at that point of the log (most recent action, not cancelled), at
//!   exactly issue time + timeout, and the expiry consumes it;
//! * every PaddingSent / BlockingBegin handed to a framework is the report of
//!   one such expiry of that machine, of the same kind, at the same time;
//! * an internal timer may only expire if it is running at that point of the
//!   log, at exactly its expiry, and every TimerEnd reports one such expiry;
//! * nothing pending or running is overdue once an event with a later time is
//!   processed.

use crate::props_simtimers::ModelViolation;
use crate::simsut::*;
use std::collections::VecDeque;

#[derive(Clone, Debug, PartialEq)]
struct XP {
    due: i128,
    kind: u8,
    bypass: bool,
    replace: bool,
    duration: i128,
}

#[derive(Default)]
struct XSide {
    pend: Vec<Option<XP>>,
    act_inflight: Vec<VecDeque<(u8, i128)>>,
    timer: Vec<Option<i128>>,
    tmr_inflight: Vec<VecDeque<i128>>,
    /// instants at which an UpdateTimer set / changed the timer and the
    /// TimerBegin has not been seen yet
    tb_owed: Vec<Vec<i128>>,
    /// instants at which any UpdateTimer was returned
    tb_allowed: Vec<Vec<i128>>,
    /// C16: the blocking of this side, from the expiry record of the
    /// BlockOutgoing that started it to the BlockingEnd handed to the framework
    block: Option<XB>,
    minted_total: u64,
    minted_replace: u64,
    used_total: u64,
    used_normal: u64,
}

#[derive(Clone, Debug)]
struct XB {
    begin: i128,
    expiry: i128,
    all_bypass: bool,
    last_bypass: bool,
}

#[derive(Default)]
pub struct ExactStats {
    pub action_expiries: u64,
    pub timer_expiries: u64,
    /// an action was cancelled / superseded at its own due instant and did not fire
    pub cancelled_at_due_instant: u64,
    /// an action fired and was cancelled / superseded at that same instant
    /// before its report was handed to the framework
    pub fired_then_cancelled_same_instant: u64,
    pub timer_cancelled_at_expiry_instant: u64,
    pub timer_fired_then_changed_same_instant: u64,
    /// a packet left at the very instant a blocking began (after it) or was
    /// updated: judged by log position
    pub packet_left_at_block_boundary_instant: u64,
    pub packet_left_while_blocked: u64,
}

fn sn(c: bool) -> &'static str {
    if c {
        "client"
    } else {
        "server"
    }
}

pub fn replay_exact(case: &SimCase, out: &SimOut, xs: &mut ExactStats) -> Vec<ModelViolation> {
    let mut v: Vec<ModelViolation> = vec![];
    fn push(v: &mut Vec<ModelViolation>, prop: &'static str, class: &str, detail: String) {
        if !v.iter().any(|x| x.prop == prop) {
            v.push(ModelViolation {
                prop,
                class: class.to_string(),
                detail,
            });
        }
    }
    let mut sides = [XSide::default(), XSide::default()];
    for (i, s) in sides.iter_mut().enumerate() {
        let n = if i == 0 { case.mc.len() } else { case.ms.len() };
        s.pend = vec![None; n];
        s.act_inflight = vec![VecDeque::new(); n];
        s.timer = vec![None; n];
        s.tmr_inflight = vec![VecDeque::new(); n];
        s.tb_owed = vec![vec![]; n];
        s.tb_allowed = vec![vec![]; n];
    }
    let aligned =
        out.trace.len() == out.steps.len()
            && out.trace.iter().zip(out.steps.iter()).all(|(a, b)| {
                a.kind == b.kind && a.client == b.client && a.t == b.t && a.id == b.id
            });
    let do_fire = |f: &Fire, sides: &mut [XSide; 2], v: &mut Vec<ModelViolation>, xs: &mut ExactStats| {
        let s = &mut sides[if f.client { 0 } else { 1 }];
        let who = sn(f.client);
        if f.machine >= s.pend.len() {
            push(
                v,
                if f.action.is_some() { "C17" } else { "C18" },
                "unknown-machine",
                format!("{who}: a timer of machine {} expired, which does not exist", f.machine),
            );
            return;
        }
        match &f.action {
            Some(a) => {
                xs.action_expiries += 1;
                let name = if a.kind == 1 { "SendPadding" } else { "BlockOutgoing" };
                let fired = XP {
                    due: f.t,
                    kind: a.kind,
                    bypass: a.bypass,
                    replace: a.replace,
                    duration: a.duration_ns as i128,
                };
                match s.pend[f.machine].take() {
                    None => push(
                        v,
                        "C17",
                        "expired-without-pending-action",
                        format!(
                            "{who} machine {}: the action timer expired at {} and a {name} was executed, but no action of that machine is pending at that point (cancelled, or already fired)",
                            f.machine, f.t
                        ),
                    ),
                    Some(p) if p != fired => push(
                        v,
                        "C17",
                        if p.due != f.t { "expired-at-wrong-time" } else { "expired-other-action" },
                        format!(
                            "{who} machine {}: executed {fired:?} but the pending (most recent) action of that machine is {p:?}",
                            f.machine
                        ),
                    ),
                    Some(_) => {}
                }
                s.act_inflight[f.machine].push_back((a.kind, f.t));
                if a.kind == 1 && a.bypass {
                    s.minted_total += 1;
                    if a.replace {
                        s.minted_replace += 1;
                    }
                }
                if a.kind == 2 {
                    // the integrator contract (lib.rs): replace, or the longer of the
                    // two. A zero-duration action on an idle side starts nothing
                    // (that corner is known finding D6 and judged by the other model).
                    let until = f.t + a.duration_ns as i128;
                    match s.block.as_mut() {
                        None => {
                            if a.replace || until > f.t {
                                s.block = Some(XB {
                                    begin: f.t,
                                    expiry: until,
                                    all_bypass: a.bypass,
                                    last_bypass: a.bypass,
                                });
                            }
                        }
                        Some(b) => {
                            if a.replace || until > b.expiry {
                                b.expiry = until;
                                b.all_bypass = b.all_bypass && a.bypass;
                                b.last_bypass = a.bypass;
                            }
                        }
                    }
                }
            }
            None => {
                xs.timer_expiries += 1;
                match s.timer[f.machine].take() {
                    None => push(
                        v,
                        "C18",
                        "timer-expired-not-running",
                        format!(
                            "{who} machine {}: the internal timer expired at {} but no internal timer is running at that point (cancelled, or already ended)",
                            f.machine, f.t
                        ),
                    ),
                    Some(e) if e != f.t => push(
                        v,
                        "C18",
                        "timer-expired-at-wrong-time",
                        format!(
                            "{who} machine {}: the internal timer expired at {} but it is set to expire at {e}",
                            f.machine, f.t
                        ),
                    ),
                    Some(_) => {}
                }
                s.tmr_inflight[f.machine].push_back(f.t);
            }
        }
    };
    for (i, st) in out.steps.iter().enumerate() {
        let t = st.t;
        for f in &st.pre {
            do_fire(f, &mut sides, &mut v, xs);
        }
        // nothing may be overdue once simulated time has moved past it
        for (si, s) in sides.iter().enumerate() {
            let who = sn(si == 0);
            for (m, p) in s.pend.iter().enumerate() {
                if let Some(p) = p {
                    if p.due < t {
                        push(
                            &mut v,
                            "C17",
                            "action-not-fired",
                            format!(
                                "{who} machine {m}: {p:?} did not fire before an event at {t} was processed (step {i}: {})",
                                KIND_NAMES[st.kind as usize]
                            ),
                        );
                    }
                }
            }
            for (m, q) in s.act_inflight.iter().enumerate() {
                if let Some((k, tf)) = q.front() {
                    if *tf < t {
                        push(
                            &mut v,
                            "C17",
                            "expiry-not-reported",
                            format!(
                                "{who} machine {m}: the {} executed at {tf} was not reported to the framework before an event at {t} was processed",
                                if *k == 1 { "SendPadding" } else { "BlockOutgoing" }
                            ),
                        );
                    }
                }
            }
            for (m, e) in s.timer.iter().enumerate() {
                if let Some(e) = e {
                    if *e < t {
                        push(
                            &mut v,
                            "C18",
                            "timer-end-missing",
                            format!("{who} machine {m}: internal timer set to expire at {e} did not expire before an event at {t} was processed"),
                        );
                    }
                }
            }
            for (m, q) in s.tmr_inflight.iter().enumerate() {
                if let Some(tf) = q.front() {
                    if *tf < t {
                        push(
                            &mut v,
                            "C18",
                            "timer-expiry-not-reported",
                            format!("{who} machine {m}: the internal timer expired at {tf} but TimerEnd was not reported before an event at {t} was processed"),
                        );
                    }
                }
            }
            if let Some(b) = &s.block {
                if b.expiry < t {
                    push(
                        &mut v,
                        "C16",
                        "blocking-end-missing",
                        format!("{who}: blocking begun at {} should end at {} but no BlockingEnd was reported before an event at {t} was processed", b.begin, b.expiry),
                    );
                }
            }
            for (m, l) in s.tb_owed.iter().enumerate() {
                if let Some(t0) = l.iter().find(|t0| **t0 < t) {
                    push(
                        &mut v,
                        "C18",
                        "timer-begin-missing",
                        format!("{who} machine {m}: UpdateTimer at {t0} set the internal timer but no TimerBegin was reported at that instant (time is now {t})"),
                    );
                }
            }
        }
        if v.len() >= 3 {
            break;
        }
        let si = if st.client { 0 } else { 1 };
        let who = sn(st.client);
        let s = &mut sides[si];
        let nm = s.pend.len();
        for l in s.tb_allowed.iter_mut() {
            l.retain(|t0| *t0 >= t);
        }
        match st.kind {
            4 | 6 if st.id < nm => {
                let want = if st.kind == 4 { 1 } else { 2 };
                let name = KIND_NAMES[st.kind as usize];
                match s.act_inflight[st.id].pop_front() {
                    None => push(
                        &mut v,
                        "C17",
                        "reported-without-expiry",
                        format!("{who} machine {}: {name} at {t} but no action timer of that machine expired (or it was already reported once)", st.id),
                    ),
                    Some((k, tf)) => {
                        if k != want {
                            push(
                                &mut v,
                                "C17",
                                "reported-wrong-kind",
                                format!("{who} machine {}: {name} at {t} but the action executed at {tf} was a {}", st.id, if k == 1 { "SendPadding" } else { "BlockOutgoing" }),
                            );
                        } else if tf != t {
                            push(
                                &mut v,
                                "C17",
                                "reported-at-wrong-time",
                                format!("{who} machine {}: {name} reported at {t} but the action timer expired at {tf}", st.id),
                            );
                        }
                    }
                }
            }
            9 if st.id < nm => match s.tmr_inflight[st.id].pop_front() {
                None => push(
                    &mut v,
                    "C18",
                    "timer-end-without-expiry",
                    format!("{who} machine {}: TimerEnd at {t} but no internal timer of that machine expired (or it was already reported once)", st.id),
                ),
                Some(tf) => {
                    if tf != t {
                        push(
                            &mut v,
                            "C18",
                            "timer-end-wrong-time",
                            format!("{who} machine {}: TimerEnd at {t} but the timer expired at {tf}", st.id),
                        );
                    }
                }
            },
            7 => match s.block.take() {
                None => push(
                    &mut v,
                    "C16",
                    "blocking-end-unexpected",
                    format!("{who}: BlockingEnd at {t} but no blocking is active at that point (never begun, or already ended)"),
                ),
                Some(b) => {
                    if b.expiry != t {
                        push(
                            &mut v,
                            "C16",
                            "blocking-end-wrong-time",
                            format!("{who}: BlockingEnd at {t} but the blocking begun at {} expires at {}", b.begin, b.expiry),
                        );
                    }
                }
            },
            5 if aligned => {
                let (padding, bypass_flag) = (out.trace[i].padding, out.trace[i].bypass);
                let mut token_ok = false;
                if bypass_flag {
                    s.used_total += 1;
                    if !padding {
                        s.used_normal += 1;
                    }
                    token_ok = s.used_total <= s.minted_total
                        && (padding || s.used_normal <= s.minted_replace);
                }
                if let Some(b) = &s.block {
                    xs.packet_left_while_blocked += 1;
                    if t == b.begin || t == b.expiry {
                        xs.packet_left_at_block_boundary_instant += 1;
                    }
                    if !(b.all_bypass && bypass_flag && token_ok) {
                        let class = if !b.all_bypass && b.last_bypass && bypass_flag && token_ok {
                            "d7-bypass-flag-overwritten"
                        } else {
                            "leak-during-blocking"
                        };
                        push(
                            &mut v,
                            "C16",
                            class,
                            format!(
                                "{who}: {} packet left at {t} while blocking is active (begun {} by the expiry record, ends {}); every blocking action allowed bypass: {}, last one: {}, packet carries bypass: {bypass_flag}, backed by a bypass padding action: {token_ok}",
                                if padding { "padding" } else { "normal" },
                                b.begin,
                                b.expiry,
                                b.all_bypass,
                                b.last_bypass
                            ),
                        );
                    }
                }
            }
            8 if st.id < nm => {
                if let Some(p) = s.tb_owed[st.id].iter().position(|t0| *t0 == t) {
                    s.tb_owed[st.id].remove(p);
                } else if !s.tb_allowed[st.id].contains(&t) {
                    push(
                        &mut v,
                        "C18",
                        "timer-begin-without-update",
                        format!("{who} machine {}: TimerBegin at {t} does not follow an UpdateTimer action returned at that instant", st.id),
                    );
                }
            }
            _ => {}
        }
        for a in &st.actions {
            if a.machine >= nm {
                continue;
            }
            match a.kind {
                0 => {
                    if a.timer == 0 || a.timer == 2 {
                        if let Some(p) = s.pend[a.machine].take() {
                            if p.due == t {
                                xs.cancelled_at_due_instant += 1;
                            }
                        }
                        if s.act_inflight[a.machine].iter().any(|(_, tf)| *tf == t) {
                            xs.fired_then_cancelled_same_instant += 1;
                        }
                    }
                    if a.timer == 1 || a.timer == 2 {
                        if s.timer[a.machine].take() == Some(t) {
                            xs.timer_cancelled_at_expiry_instant += 1;
                        }
                        if s.tmr_inflight[a.machine].contains(&t) {
                            xs.timer_fired_then_changed_same_instant += 1;
                        }
                    }
                }
                1 | 2 => {
                    if let Some(p) = &s.pend[a.machine] {
                        if p.due == t {
                            xs.cancelled_at_due_instant += 1;
                        }
                    }
                    if s.act_inflight[a.machine].iter().any(|(_, tf)| *tf == t) {
                        xs.fired_then_cancelled_same_instant += 1;
                    }
                    s.pend[a.machine] = Some(XP {
                        due: t + a.timeout_ns as i128,
                        kind: a.kind,
                        bypass: a.bypass,
                        replace: a.replace,
                        duration: a.duration_ns as i128,
                    });
                }
                _ => {
                    let until = t + a.duration_ns as i128;
                    let set = a.replace || s.timer[a.machine].map_or(true, |e| until > e);
                    if set {
                        if s.timer[a.machine] == Some(t) {
                            xs.timer_cancelled_at_expiry_instant += 1;
                        }
                        if s.tmr_inflight[a.machine].contains(&t) {
                            xs.timer_fired_then_changed_same_instant += 1;
                        }
                        s.timer[a.machine] = Some(until);
                        s.tb_owed[a.machine].push(t);
                    }
                    s.tb_allowed[a.machine].push(t);
                }
            }
        }
    }
    if v.len() < 3 {
        for f in &out.tail {
            do_fire(f, &mut sides, &mut v, xs);
        }
    }
    v
}

//! Engine A': sweep of the RNG seam for C06. For one probability vector every
//! distinct value the uniform draw can take (all 2^23 outcomes of the 32-bit
//! word) is injected through the simulated random source into
//! `State::sample_state`, and a stratified subset through the whole framework.

use crate::common::*;
use crate::fwsim::{ActionRec, Ev};
use crate::mach::{cdist, ALL_EVENTS};
use crate::sup::{catch_sut, Engine, EngineInfo, Stats, Tier, Violation};
use enum_map::enum_map;
use maybenot::action::Action;
use maybenot::constants::{STATE_END, STATE_SIGNAL};
use maybenot::event::Event;
use maybenot::state::{State, Trans};
use maybenot::{Framework, Machine};
use rand_core::RngCore;
use serde_json::{json, Value};

pub struct C06;

/// random source that hands out one fixed word
struct OneWord(u64);
impl RngCore for OneWord {
    fn next_u32(&mut self) -> u32 {
        (self.0 >> 32) as u32
    }
    fn next_u64(&mut self) -> u64 {
        self.0
    }
    fn fill_bytes(&mut self, d: &mut [u8]) {
        for b in d {
            *b = self.0 as u8;
        }
    }
    fn try_fill_bytes(&mut self, d: &mut [u8]) -> Result<(), rand_core::Error> {
        self.fill_bytes(d);
        Ok(())
    }
}

#[derive(Clone, Debug)]
struct Vector {
    /// target: 0..k-1 = ordinary state i+1 of the probe machine, END, SIGNAL
    targets: Vec<usize>,
    probs: Vec<f32>,
    /// index into ALL_EVENTS of the event the transitions are declared for
    event: usize,
    /// bit set of further events that get their own probability-1 transition
    /// (to END) in the lookup sub-check
    declared: u16,
}

const GRID: u64 = 1 << 23;

/// value * 2^64 as exact integer (p >= 2^-40 guaranteed by the generator)
fn scaled(p: f32) -> Option<u128> {
    let bits = p.to_bits();
    let exp = ((bits >> 23) & 0xff) as i32;
    let man = bits & 0x7f_ffff;
    let (m, e) = if exp == 0 {
        (man as u128, -149)
    } else {
        ((man | 0x80_0000) as u128, exp - 150)
    };
    let sh = e + 64;
    if !(0..=100).contains(&sh) {
        return None;
    }
    Some(m << sh)
}

/// exact boundaries: target i is taken for draws j with b[i] <= j < b[i+1]
fn boundaries(v: &Vector) -> Option<Vec<u64>> {
    let mut b = vec![0u64];
    let mut s: u128 = 0;
    for p in &v.probs {
        s += scaled(*p)?;
        // ceil(s / 2^41), capped at the grid size
        let c = ((s + (1u128 << 41) - 1) >> 41).min(GRID as u128) as u64;
        b.push(c);
    }
    Some(b)
}

/// all probabilities are multiples of the draw resolution 2^-23: every partial
/// sum is exactly representable in f32 and the expected counts are exact
fn is_dyadic64(v: &Vector) -> bool {
    v.probs
        .iter()
        .all(|p| (*p as f64 * 8388608.0).fract() == 0.0)
}

fn gen_vector(g: &mut Gen) -> Vector {
    let k = 1 + g.usize(8);
    let mut targets: Vec<usize> = vec![];
    let mut next_state = 1usize;
    for _ in 0..k {
        let t = match g.below(8) {
            0 if !targets.contains(&STATE_END) => STATE_END,
            1 if !targets.contains(&STATE_SIGNAL) => STATE_SIGNAL,
            _ => {
                next_state += 1;
                next_state - 1
            }
        };
        targets.push(t);
    }
    let style = g.below(8);
    let probs: Vec<f32> = loop {
        let ps: Vec<f32> = match style {
            0 => {
                // dyadic 64ths
                let mut left = 64u32;
                let mut v = vec![];
                for i in 0..k {
                    let rem = (k - i - 1) as u32;
                    let maxp = left - rem;
                    let p = if i + 1 == k && g.chance(0.5) {
                        maxp
                    } else {
                        1 + g.below(maxp as u64) as u32
                    };
                    left -= p;
                    v.push(p as f32 / 64.0);
                }
                v
            }
            1 => {
                // sums to exactly 1 with f32-resolution values
                let mut v: Vec<f32> = (0..k).map(|_| g.f01() as f32 + 1e-3).collect();
                let s: f32 = v.iter().sum();
                for x in v.iter_mut() {
                    *x /= s;
                }
                v
            }
            2 => {
                // tiny total
                let total = *g.pick(&[9.536743e-7f32, 1e-5, 1e-3, 3.0e-7]);
                (0..k).map(|_| total / k as f32).collect()
            }
            3 => {
                // values at resolution limits
                (0..k)
                    .map(|_| {
                        *g.pick(&[
                            f32::EPSILON,
                            1.0 / 16777216.0,
                            0.5 - f32::EPSILON / 4.0,
                            1.0 / 3.0,
                            0.1,
                            1.0 / 8388608.0,
                            3.0 / 8388608.0,
                        ])
                    })
                    .collect()
            }
            6 | 7 => {
                // grid-aligned: n_i * 2^-23 with a total a few draw steps below 1
                // (or anywhere), so that the no-transition remainder is tiny
                let short = if style == 6 {
                    g.below(9)
                } else {
                    g.below(GRID / 2)
                };
                let total = GRID - short;
                let mut cuts: Vec<u64> = (0..k - 1).map(|_| 1 + g.below(total - 1)).collect();
                cuts.push(0);
                cuts.push(total);
                cuts.sort();
                cuts.dedup();
                cuts.windows(2)
                    .map(|w| (w[1] - w[0]) as f32 / GRID as f32)
                    .collect()
            }
            4 => {
                if k == 1 {
                    vec![*g.pick(&[1.0f32, 0.99999994, 0.5, 1.0 / 8388608.0])]
                } else {
                    (0..k).map(|_| (g.f01() / k as f64) as f32).collect()
                }
            }
            _ => (0..k)
                .map(|_| (g.f01() * g.f01() / k as f64) as f32)
                .collect(),
        };
        let mut sum = 0f32;
        for p in &ps {
            sum += *p;
        }
        if ps.iter().all(|p| *p > 0.0 && *p <= 1.0 && *p >= 1e-12) && sum > 0.0 && sum <= 1.0 {
            break ps;
        }
    };
    let mut targets = targets;
    targets.truncate(probs.len());
    let event = g.usize(13);
    let declared = (g.u64() & 0x1fff) as u16;
    Vector {
        targets,
        probs,
        event,
        declared,
    }
}

fn vec_json(v: &Vector) -> Value {
    json!({
        "targets": v.targets,
        "prob_bits": v.probs.iter().map(|p| p.to_bits()).collect::<Vec<u32>>(),
        "probs_readable": v.probs,
        "event": v.event,
        "event_readable": format!("{:?}", ALL_EVENTS[v.event % 13]),
        "declared_events_bits": v.declared,
    })
}
fn vec_from(j: &Value) -> Option<Vector> {
    Some(Vector {
        targets: j["targets"]
            .as_array()?
            .iter()
            .map(|x| x.as_u64().map(|y| y as usize))
            .collect::<Option<Vec<_>>>()?,
        probs: j["prob_bits"]
            .as_array()?
            .iter()
            .map(|x| x.as_u64().map(|y| f32::from_bits(y as u32)))
            .collect::<Option<Vec<_>>>()?,
        event: j["event"].as_u64().unwrap_or(0) as usize % 13,
        declared: j["declared_events_bits"].as_u64().unwrap_or(0) as u16,
    })
}

fn probe_state(v: &Vector, event: Event) -> Option<State> {
    let list: Vec<Trans> = v
        .targets
        .iter()
        .zip(v.probs.iter())
        .map(|(t, p)| Trans(*t, *p))
        .collect();
    let mut m: enum_map::EnumMap<Event, Vec<Trans>> = enum_map! { _ => vec![] };
    m[event] = list;
    let s = State::new(m);
    let n = v
        .targets
        .iter()
        .filter(|t| **t != STATE_END && **t != STATE_SIGNAL)
        .max()
        .copied()
        .unwrap_or(0)
        + 1;
    s.validate(n.max(1)).ok()?;
    Some(s)
}

fn word_for(j: u64, junk: u64) -> u64 {
    // the draw uses the top 23 bits of the 32-bit word taken from the top half
    (j << 41) | (junk & ((1u64 << 41) - 1))
}

impl C06 {
    fn run(&self, v: &Vector, stats: &mut Stats, full: bool) -> Vec<Violation> {
        let mut out = vec![];
        let ev = ALL_EVENTS[v.event % 13];
        let Some(state) = probe_state(v, ev) else {
            stats.inc("rejected_vectors");
            return out;
        };
        let Some(b) = boundaries(v) else {
            stats.inc("rejected_vectors");
            return out;
        };
        let k = v.targets.len();
        let dyadic = is_dyadic64(v);
        stats.inc(if dyadic {
            "dyadic_vectors"
        } else {
            "non_dyadic_vectors"
        });
        stats.probe_if("sum_exactly_one", *b.last().unwrap() == GRID);
        stats.probe_if("has_end_target", v.targets.contains(&STATE_END));
        stats.probe_if("has_signal_target", v.targets.contains(&STATE_SIGNAL));
        // ---- the whole draw space through State::sample_state
        if full {
            let mut counts = vec![0u64; k + 1];
            let junk = 0x1_5555_5555u64;
            let r = catch_sut(|| {
                for j in 0..GRID {
                    let mut rng = OneWord(word_for(j, junk.wrapping_mul(j | 1)));
                    match state.sample_state(ev, &mut rng) {
                        None => counts[k] += 1,
                        Some(t) => match v.targets.iter().position(|x| *x == t) {
                            Some(i) => counts[i] += 1,
                            None => counts[k] += u64::MAX / 2, // impossible target
                        },
                    }
                }
                // an event without transitions never moves the machine: every
                // other event, lowest / middle / highest draw
                let mut moved = None;
                for other in ALL_EVENTS {
                    if other == ev {
                        continue;
                    }
                    for w in [0u64, 1 << 63, u64::MAX] {
                        let mut rng = OneWord(w);
                        if let Some(t) = state.sample_state(other, &mut rng) {
                            moved = Some((other, t));
                        }
                    }
                }
                moved
            });
            stats.add("draws_injected", GRID);
            match r {
                Err(p) => {
                    out.push(Violation::new(
                        "panic-in-sample_state",
                        p,
                        Some(vec_json(v)),
                    ));
                    return out;
                }
                Ok(moved) => {
                    if let Some((other, t)) = moved {
                        out.push(Violation::new(
                            "moved-without-transition",
                            format!("the state declares transitions for {ev:?} only, but {other:?} returned target {t}"),
                            Some(vec_json(v)),
                        ));
                        return out;
                    }
                }
            }
            let tol = if dyadic { 0 } else { k as u64 };
            for i in 0..=k {
                let expect = if i < k { b[i + 1] - b[i] } else { GRID - b[k] };
                let diff = counts[i].abs_diff(expect);
                stats.max("max_count_deviation", diff.min(1 << 30));
                if diff > tol {
                    out.push(Violation::new(
                        "share-mismatch",
                        format!(
                            "{} chosen on {} of 2^23 equally likely draws, declared probability gives {} (tolerance {tol}); vector {:?} -> {:?}",
                            if i < k { format!("target #{i}") } else { "no transition".into() },
                            counts[i], expect, v.probs, v.targets
                        ),
                        Some(vec_json(v)),
                    ));
                    return out;
                }
            }
            if v.probs.len() == 1 && v.probs[0] == 1.0 {
                stats.probe("probability_one_always_taken");
            }
        }
        // ---- event lookup: a state that declares a probability-1 transition to
        // its own target for each event of a set D must return exactly that target
        // for the events in D and nothing for the others, through State::new,
        // sample_state and get_transitions
        {
            let mut m: enum_map::EnumMap<Event, Vec<Trans>> = enum_map! { _ => vec![] };
            for (i, e) in ALL_EVENTS.iter().enumerate() {
                if v.declared >> i & 1 == 1 {
                    m[*e] = vec![Trans(i, 1.0)];
                }
            }
            let want = m.clone();
            let r = catch_sut(|| {
                let s = State::new(m);
                let mut bad = None;
                for (i, e) in ALL_EVENTS.iter().enumerate() {
                    for w in [0u64, u64::MAX] {
                        let got = s.sample_state(*e, &mut OneWord(w));
                        let exp = (v.declared >> i & 1 == 1).then_some(i);
                        if got != exp {
                            bad = Some(format!("{e:?}: sample_state returned {got:?}, declared {exp:?}"));
                        }
                    }
                }
                let back = s.get_transitions();
                for e in ALL_EVENTS {
                    let a: Vec<(usize, u32)> = back[e].iter().map(|t| (t.0, t.1.to_bits())).collect();
                    let b: Vec<(usize, u32)> = want[e].iter().map(|t| (t.0, t.1.to_bits())).collect();
                    if a != b {
                        bad = Some(format!("{e:?}: get_transitions returns {:?}, State::new was given {:?}", back[e], want[e]));
                    }
                }
                bad
            });
            stats.probe("event_lookup_subcheck");
            match r {
                Err(p) => {
                    out.push(Violation::new("panic-in-sample_state", p, Some(vec_json(v))));
                    return out;
                }
                Ok(Some(d)) => {
                    out.push(Violation::new(
                        "event-lookup",
                        format!("state declaring one transition per event of the set {:#015b}: {d}", v.declared),
                        Some(vec_json(v)),
                    ));
                    return out;
                }
                Ok(None) => {}
            }
        }
        // ---- stratified draws through the whole framework
        let n_states = state_count(v);
        let Some(state) = probe_state(v, Event::NormalRecv) else {
            return out;
        };
        let mut states = vec![state.clone()];
        for i in 1..n_states {
            let mut s = State::new(enum_map! { _ => vec![] });
            s.action = Some(Action::SendPadding {
                bypass: false,
                replace: false,
                timeout: cdist(i as f64),
                limit: None,
            });
            states.push(s);
        }
        let Ok(probe) = Machine::new(u64::MAX, 0.0, 0, 0.0, states) else {
            return out;
        };
        // second machine observes SIGNAL
        let mut o0 = State::new(enum_map! { Event::Signal => vec![Trans(1, 1.0)], _ => vec![] });
        o0.action = None;
        let mut o1 = State::new(enum_map! { _ => vec![] });
        o1.action = Some(Action::SendPadding {
            bypass: true,
            replace: true,
            timeout: cdist(777.0),
            limit: None,
        });
        let Ok(observer) = Machine::new(u64::MAX, 0.0, 0, 0.0, vec![o0, o1]) else {
            return out;
        };
        let machines = vec![probe, observer];
        let mut draws: Vec<u64> = vec![0, GRID - 1];
        for c in &b {
            for d in -3i64..=3 {
                let j = *c as i64 + d;
                if j >= 0 && (j as u64) < GRID {
                    draws.push(j as u64);
                }
            }
        }
        let mut g = Gen::new(fnv1a(format!("{:?}", v.probs).as_bytes()));
        for _ in 0..512 {
            draws.push(g.below(GRID));
        }
        for j in draws {
            let expect_i = (0..k).find(|i| b[*i] <= j && j < b[*i + 1]);
            // skip draws within the f32 rounding distance of a threshold for non-dyadic vectors
            if !dyadic && b.iter().any(|c| c.abs_diff(j) <= k as u64) {
                stats.inc("ambiguous_skipped");
                continue;
            }
            set_call_word(word_for(j, g.u64()));
            let res = catch_sut(|| {
                let mut fw = Framework::new(
                    machines.clone(),
                    0.0,
                    0.0,
                    VInstant(0),
                    SimRng::ConstPerCall,
                )
                .expect("probe framework");
                let acts: Vec<ActionRec> = fw
                    .trigger_events(&[Ev::NR.to_trigger()], VInstant(1000))
                    .map(ActionRec::from)
                    .collect();
                let snap = fw.verif_snapshot();
                (acts, snap)
            });
            stats.inc("framework_draws");
            let (acts, snap) = match res {
                Ok(x) => x,
                Err(p) => {
                    out.push(Violation::new("panic-in-framework", p, Some(vec_json(v))));
                    return out;
                }
            };
            let got = if snap.machines[0].current_state == STATE_END {
                Some(STATE_END)
            } else if acts
                .iter()
                .any(|a| a.machine == 1 && a.timeout_ns == 777_000)
            {
                Some(STATE_SIGNAL)
            } else if let Some(a) = acts.iter().find(|a| a.machine == 0) {
                Some((a.timeout_ns / 1000) as usize)
            } else {
                None
            };
            let want = expect_i.map(|i| v.targets[i]);
            if got != want {
                out.push(Violation::new(
                    "framework-dispatch",
                    format!(
                        "draw {j}/2^23 with vector {:?} -> {:?}: framework took {:?}, declared probabilities give {:?}",
                        v.probs, v.targets, got, want
                    ),
                    Some(vec_json(v)),
                ));
                return out;
            }
        }
        if out.is_empty() {
            let mut h = Fnv::default();
            for p in &v.probs {
                h.u64(p.to_bits() as u64);
            }
            for t in &v.targets {
                h.u64(*t as u64);
            }
            stats.shapes.insert(h.0);
        }
        out
    }
}

fn state_count(v: &Vector) -> usize {
    v.targets
        .iter()
        .filter(|t| **t != STATE_END && **t != STATE_SIGNAL)
        .max()
        .copied()
        .unwrap_or(0)
        + 1
}

impl Engine for C06 {
    fn info(&self) -> EngineInfo {
        EngineInfo {
            property: "C06",
            engine: "drawspace",
            level: "fault_enumeration",
            rule: "case = one validated probability vector (1..8 targets incl. END and SIGNAL; styles: 64ths, sums to exactly 1, tiny totals down to 3e-7, values at f32 resolution limits, single entry 1.0 / 1-2^-24 / 2^-23, random). For each vector ALL 2^23 distinct values of the uniform draw are injected through the random-source seam into State::sample_state and the per-target counts compared with exact rational thresholds (exact for 64ths, tolerance = number of targets otherwise); plus a stratified subset (0, 2^23-1, every threshold +-3, 512 random) through Framework::trigger_events with END / SIGNAL / target observed from outside. Exhaustive per vector, sampled over vectors. distinct_nontrivial = distinct vectors fully swept".into(),
            assumptions: vec![
                "the uniform draw is the top 23 bits of one 32-bit word (rand 0.8 gen_range for f32); a draw that used more bits would make the sweep non-exhaustive".into(),
                "probabilities below 1e-12 are not generated (exact thresholds are computed in 128-bit fixed point)".into(),
                "non-dyadic vectors: an implementation may round partial sums, so counts may differ from the exact expectation by up to the number of targets".into(),
            ],
            real_components: vec![
                "maybenot::state::State::sample_state",
                "maybenot::Framework transition dispatch (END, SIGNAL, ordinary targets)",
            ],
            stubbed_components: vec!["random source: one scripted word per draw", "probe / observer machines"],
            totality: false,
            cpu_limit_s: crate::sup::CASE_CPU_LIMIT_S,
            exhaustive: true,
        }
    }
    fn n_cases(&self, tier: Tier) -> u64 {
        match tier {
            Tier::Quick => 800,
            Tier::Thorough => 40_000,
        }
    }
    fn run_case(&self, k: u64, seed: u64, _tier: Tier, stats: &mut Stats) -> Vec<Violation> {
        let mut g = Gen::new(seed);
        let v = gen_vector(&mut g);
        if k < 3 {
            stats.samples.push(vec_json(&v));
        }
        self.run(&v, stats, true)
    }
    fn replay(&self, case: &Value, stats: &mut Stats) -> Vec<Violation> {
        match vec_from(case) {
            Some(v) => self.run(&v, stats, true),
            None => vec![],
        }
    }
    fn shrink(&self, case: &Value) -> Vec<Value> {
        let Some(v) = vec_from(case) else {
            return vec![];
        };
        let mut out = vec![];
        if v.targets.len() > 1 {
            for i in 0..v.targets.len() {
                let mut w = v.clone();
                w.targets.remove(i);
                w.probs.remove(i);
                out.push(vec_json(&w));
            }
        }
        out
    }
}

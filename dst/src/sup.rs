//! Supervisor / worker machinery: seeded case indices are partitioned over worker
//! processes; a worker that dies or stalls is attributed to the case it had
//! announced; violations are minimised, written as replay files, re-executed in
//! a fresh process and only then reported.

use crate::common::{case_seed, Fnv};
use serde_json::{json, Map, Value};
use std::collections::{BTreeMap, BTreeSet};
use std::io::{BufRead, BufReader, Write};
use std::process::{Child, Command, Stdio};
use std::sync::mpsc;
use std::time::{Duration, Instant};

#[derive(Clone, Copy, PartialEq, Eq, Debug)]
pub enum Tier {
    Quick,
    Thorough,
}
impl Tier {
    pub fn name(&self) -> &'static str {
        match self {
            Tier::Quick => "quick",
            Tier::Thorough => "thorough",
        }
    }
    pub fn parse(s: &str) -> Option<Tier> {
        match s {
            "quick" => Some(Tier::Quick),
            "thorough" => Some(Tier::Thorough),
            _ => None,
        }
    }
}

/// What a run measured. Everything in here is summed / maxed / unioned over
/// cases and workers, so the result does not depend on the worker count.
#[derive(Default, Clone)]
pub struct Stats {
    pub counters: BTreeMap<String, u64>,
    pub maxes: BTreeMap<String, u64>,
    /// distinct run shapes among non-trivial runs
    pub shapes: BTreeSet<u64>,
    /// distinct abstract states reached
    pub states: BTreeSet<u64>,
    pub samples: Vec<Value>,
}

impl Stats {
    pub fn add(&mut self, k: &str, n: u64) {
        if n == 0 {
            // make the key visible even when it stays at zero
            self.counters.entry(k.to_string()).or_insert(0);
            return;
        }
        let e = self.counters.entry(k.to_string()).or_insert(0);
        *e = e.saturating_add(n);
    }
    pub fn inc(&mut self, k: &str) {
        self.add(k, 1);
    }
    pub fn fault(&mut self, k: &str) {
        self.add(&format!("fault.{k}"), 1);
    }
    pub fn probe(&mut self, k: &str) {
        self.add(&format!("probe.{k}"), 1);
    }
    pub fn probe_if(&mut self, k: &str, c: bool) {
        self.add(&format!("probe.{k}"), c as u64);
    }
    pub fn max(&mut self, k: &str, v: u64) {
        let e = self.maxes.entry(k.to_string()).or_insert(0);
        if v > *e {
            *e = v;
        }
    }
    pub fn get(&self, k: &str) -> u64 {
        self.counters.get(k).copied().unwrap_or(0)
    }
    pub fn merge(&mut self, o: &Stats) {
        for (k, v) in &o.counters {
            let e = self.counters.entry(k.clone()).or_insert(0);
            *e = e.saturating_add(*v);
        }
        for (k, v) in &o.maxes {
            self.max(k, *v);
        }
        self.shapes.extend(o.shapes.iter().copied());
        self.states.extend(o.states.iter().copied());
        for s in &o.samples {
            if self.samples.len() < 3 {
                self.samples.push(s.clone());
            }
        }
    }
    fn to_json(&self) -> Value {
        json!({
            "c": self.counters, "m": self.maxes,
            "sh": self.shapes.iter().map(|x| format!("{x:x}")).collect::<Vec<_>>(),
            "st": self.states.iter().map(|x| format!("{x:x}")).collect::<Vec<_>>(),
            "sa": self.samples,
        })
    }
    fn from_json(v: &Value) -> Stats {
        let mut s = Stats::default();
        if let Some(m) = v["c"].as_object() {
            for (k, x) in m {
                s.counters.insert(k.clone(), x.as_u64().unwrap_or(0));
            }
        }
        if let Some(m) = v["m"].as_object() {
            for (k, x) in m {
                s.maxes.insert(k.clone(), x.as_u64().unwrap_or(0));
            }
        }
        for (key, set) in [("sh", &mut s.shapes), ("st", &mut s.states)] {
            if let Some(a) = v[key].as_array() {
                for x in a {
                    if let Some(h) = x.as_str().and_then(|h| u64::from_str_radix(h, 16).ok()) {
                        set.insert(h);
                    }
                }
            }
        }
        if let Some(a) = v["sa"].as_array() {
            s.samples = a.clone();
        }
        s
    }
}

#[derive(Clone, Debug)]
pub struct Violation {
    /// violation class: minimisation keeps the class fixed
    pub class: String,
    pub detail: String,
    /// explicit, self-contained case description (None: only regenerable)
    pub case: Option<Value>,
}

impl Violation {
    pub fn new(class: &str, detail: String, case: Option<Value>) -> Self {
        Violation {
            class: class.to_string(),
            detail,
            case,
        }
    }
}

pub struct EngineInfo {
    pub property: &'static str,
    pub engine: &'static str,
    pub level: &'static str,
    pub rule: String,
    pub assumptions: Vec<String>,
    pub real_components: Vec<&'static str>,
    pub stubbed_components: Vec<&'static str>,
    /// crash / hang of a worker is a violation of this property
    pub totality: bool,
    /// CPU-time limit per case in seconds (hang detector)
    pub cpu_limit_s: i64,
    pub exhaustive: bool,
}

pub trait Engine {
    fn info(&self) -> EngineInfo;
    fn n_cases(&self, tier: Tier) -> u64;
    /// generate and run case k; returns violations with explicit cases
    fn run_case(&self, k: u64, seed: u64, tier: Tier, stats: &mut Stats) -> Vec<Violation>;
    /// run an explicit case (from a replay file or from the minimiser)
    fn replay(&self, case: &Value, stats: &mut Stats) -> Vec<Violation>;
    /// simpler variants of a case, most aggressive first
    fn shrink(&self, _case: &Value) -> Vec<Value> {
        vec![]
    }
    /// id of the known finding a violation matches (see KNOWN_FINDINGS.txt)
    fn known_finding(&self, _v: &Violation) -> Option<&'static str> {
        None
    }
    /// A short description of case k that is known *before* it is run (e.g. which
    /// dependency path it will take); computed in the worker, under the case's CPU
    /// limit, announced to the supervisor and used to classify a crash or hang of
    /// that case. The supervisor itself never regenerates or runs a case.
    fn crash_tag(&self, _k: u64, _seed: u64, _tier: Tier) -> Option<String> {
        None
    }
    /// like known_finding for a worker crash/hang (`kind`) on a case announced
    /// with `tag`
    fn known_finding_crash(&self, _kind: &str, _tag: Option<&str>) -> Option<&'static str> {
        None
    }
}

// ---------------------------------------------------------------------------
// panic capture

thread_local! {
    static LAST_PANIC: std::cell::RefCell<Option<String>> = const { std::cell::RefCell::new(None) };
}

pub fn install_panic_hook() {
    std::panic::set_hook(Box::new(|info| {
        let loc = info
            .location()
            .map(|l| format!("{}:{}", l.file(), l.line()))
            .unwrap_or_default();
        let msg = if let Some(s) = info.payload().downcast_ref::<&str>() {
            s.to_string()
        } else if let Some(s) = info.payload().downcast_ref::<String>() {
            s.clone()
        } else if info
            .payload()
            .downcast_ref::<crate::common::RngBudgetExceeded>()
            .is_some()
        {
            "RNG word budget exceeded (rejection loop does not terminate)".to_string()
        } else {
            "non-string panic payload".to_string()
        };
        LAST_PANIC.with(|p| *p.borrow_mut() = Some(format!("{msg} @ {loc}")));
    }));
}

/// Run code of the system under test; a panic is returned as a description.
pub fn catch_sut<T>(f: impl FnOnce() -> T) -> Result<T, String> {
    match std::panic::catch_unwind(std::panic::AssertUnwindSafe(f)) {
        Ok(v) => Ok(v),
        Err(_) => Err(LAST_PANIC
            .with(|p| p.borrow_mut().take())
            .unwrap_or_else(|| "panic".into())),
    }
}

/// Normalise a panic description into a violation class (location only).
pub fn panic_class(desc: &str) -> String {
    if desc.starts_with("RNG word budget exceeded") {
        return "unbounded-loop-rng-word-budget".to_string();
    }
    let loc = desc.rsplit(" @ ").next().unwrap_or("");
    // strip absolute prefixes so that scratch copies give the same class
    let loc = loc.rsplit("crates/").next().unwrap_or(loc);
    let loc = loc.rsplit(".cargo/registry/src/").next().unwrap_or(loc);
    format!("panic@{loc}")
}

// ---------------------------------------------------------------------------
// worker side

/// CPU-time limit per case (immune to machine load, unlike wall-clock time).
pub const CASE_CPU_LIMIT_S: i64 = 2;
pub const EXIT_CPU_LIMIT: i32 = 97;

/// in replay mode: message to print and exit code 1 when the CPU limit fires
static mut REPLAY_HANG_MSG: Option<Vec<u8>> = None;

extern "C" fn on_sigprof(_: libc::c_int) {
    unsafe {
        #[allow(static_mut_refs)]
        if let Some(m) = REPLAY_HANG_MSG.as_ref() {
            libc::write(1, m.as_ptr() as *const libc::c_void, m.len());
            libc::_exit(1)
        }
        libc::_exit(EXIT_CPU_LIMIT)
    }
}

pub fn arm_cpu_timer(secs: i64) {
    unsafe {
        if secs > 0 {
            libc::signal(libc::SIGPROF, on_sigprof as usize);
        }
        let tv = libc::itimerval {
            it_interval: libc::timeval {
                tv_sec: 0,
                tv_usec: 0,
            },
            it_value: libc::timeval {
                tv_sec: secs,
                tv_usec: 0,
            },
        };
        libc::setitimer(libc::ITIMER_PROF, &tv, std::ptr::null_mut());
    }
}

/// true in `--replay` and `--minimise` processes: oracles that compare repeated
/// runs (reproducibility) repeat more often there, so that a violation that only
/// shows with some probability (the system under test drew from a real entropy
/// source) is kept by the minimiser only if it shows reliably, and replays.
pub static REPLAY_MODE: std::sync::atomic::AtomicU32 = std::sync::atomic::AtomicU32::new(0);
/// number of repeated comparison runs: 1 in a worker, 8 while minimising, 32 in a replay
pub fn repeat_runs() -> u32 {
    REPLAY_MODE.load(std::sync::atomic::Ordering::Relaxed).max(1)
}

/// Address-space limit per worker / replay process (VERIF_WORKER_MEM_MB, default
/// 2048): a case that makes the system under test allocate without bound ends as
/// an allocation failure (abort) of that one process, attributed to that case,
/// instead of exhausting the machine and taking the whole check down with it.
pub fn limit_memory() {
    let mb: u64 = std::env::var("VERIF_WORKER_MEM_MB")
        .ok()
        .and_then(|v| v.parse().ok())
        .unwrap_or(2048);
    let lim = libc::rlimit {
        rlim_cur: mb << 20,
        rlim_max: mb << 20,
    };
    unsafe {
        libc::setrlimit(libc::RLIMIT_AS, &lim);
    }
}

pub fn worker_main(engine: &dyn Engine, tier: Tier, vseed: u64, start: u64, step: u64, end: u64) {
    install_panic_hook();
    limit_memory();
    let info = engine.info();
    let out = std::io::stdout();
    let mut stats = Stats::default();
    let digest = std::env::var("VERIF_DIGEST_OUT").is_ok();
    let mut since_flush = 0u64;
    let mut with_case = 0u32;
    let mut k = start;
    while k < end {
        {
            let mut o = out.lock();
            let _ = writeln!(o, "S {k}");
            let _ = o.flush();
        }
        let seed = case_seed(vseed, info.property, k);
        arm_cpu_timer(info.cpu_limit_s);
        if let Some(tag) = engine.crash_tag(k, seed, tier) {
            let mut o = out.lock();
            let _ = writeln!(o, "T {tag}");
            let _ = o.flush();
        }
        let mut case_stats = Stats::default();
        let r = std::panic::catch_unwind(std::panic::AssertUnwindSafe(|| {
            engine.run_case(k, seed, tier, &mut case_stats)
        }));
        if digest {
            // determinism self-test: a digest of everything the case did
            let mut h = Fnv::default();
            for (key, val) in &case_stats.counters {
                h.bytes(key.as_bytes());
                h.u64(*val);
            }
            for x in &case_stats.shapes {
                h.u64(*x);
            }
            for x in &case_stats.states {
                h.u64(*x);
            }
            if let Ok(vs) = &r {
                for v in vs {
                    h.bytes(v.class.as_bytes());
                    h.bytes(v.detail.as_bytes());
                }
            }
            let mut o = out.lock();
            let _ = writeln!(o, "D {k} {:016x}", h.0);
        }
        stats.merge(&case_stats);
        for s in case_stats.samples {
            if !stats.samples.contains(&s) && stats.samples.len() < 3 {
                stats.samples.push(s);
            }
        }
        match r {
            Ok(vs) => {
                stats.inc("cases");
                for v in vs {
                    // only the first few violations of a worker carry their (possibly
                    // large) case; the supervisor writes at most a handful of replays
                    // known findings are matched here, where the case is at hand
                    let kf = engine.known_finding(&v);
                    let case = if kf.is_some() {
                        None
                    } else {
                        with_case += 1;
                        if with_case <= 6 {
                            v.case
                        } else {
                            None
                        }
                    };
                    let j = json!({"k": k, "class": v.class, "detail": v.detail, "case": case, "kf": kf});
                    let mut o = out.lock();
                    let _ = writeln!(o, "V {}", j);
                    let _ = o.flush();
                }
            }
            Err(_) => {
                let d = LAST_PANIC
                    .with(|p| p.borrow_mut().take())
                    .unwrap_or_default();
                let mut o = out.lock();
                let _ = writeln!(o, "H {}", json!({"k": k, "detail": d}));
                let _ = o.flush();
            }
        }
        arm_cpu_timer(0);
        since_flush += 1;
        if since_flush >= 64 {
            let mut o = out.lock();
            let _ = writeln!(o, "P {}", stats.to_json());
            let _ = o.flush();
            stats = Stats::default();
            since_flush = 0;
        }
        k += step;
    }
    let mut o = out.lock();
    let _ = writeln!(o, "P {}", stats.to_json());
    let _ = writeln!(o, "E");
    let _ = o.flush();
}

// ---------------------------------------------------------------------------
// supervisor side

struct W {
    /// milliseconds since supervisor start of the last line read from this worker
    /// (stamped by the reader thread, so a busy main loop cannot fake a stall)
    activity: std::sync::Arc<std::sync::atomic::AtomicU64>,
    child: Child,
    current: Option<u64>,
    /// crash tag announced for the current case
    tag: Option<String>,
    last_progress: Instant,
    done: bool,
    gen: u64,
}

fn spawn_worker(
    prop: &str,
    tier: Tier,
    vseed: u64,
    start: u64,
    step: u64,
    end: u64,
    wi: usize,
    gen: u64,
    tx: &mpsc::Sender<(usize, u64, Option<String>)>,
    activity: std::sync::Arc<std::sync::atomic::AtomicU64>,
    t0: Instant,
) -> Child {
    let exe = std::env::current_exe().expect("current_exe");
    let mut child = Command::new(exe)
        .args([
            "--worker",
            prop,
            tier.name(),
            &vseed.to_string(),
            &start.to_string(),
            &step.to_string(),
            &end.to_string(),
        ])
        .stdin(Stdio::null())
        .stdout(Stdio::piped())
        .stderr(Stdio::null())
        .spawn()
        .expect("spawn worker");
    let so = child.stdout.take().unwrap();
    let tx = tx.clone();
    std::thread::spawn(move || {
        let r = BufReader::with_capacity(1 << 16, so);
        for line in r.lines() {
            activity.store(
                t0.elapsed().as_millis() as u64,
                std::sync::atomic::Ordering::Relaxed,
            );
            match line {
                Ok(l) => {
                    if tx.send((wi, gen, Some(l))).is_err() {
                        return;
                    }
                }
                Err(_) => break,
            }
        }
        let _ = tx.send((wi, gen, None));
    });
    child
}

pub struct RunOutcome {
    pub exit: i32,
}

struct Found {
    /// id of the known finding the worker matched this violation to
    kf: Option<String>,
    k: u64,
    class: String,
    detail: String,
    case: Option<Value>,
}

pub fn known_ids() -> BTreeMap<String, String> {
    // id -> description, only for `known:` lines
    let mut m = BTreeMap::new();
    let p = verif_dir().join("KNOWN_FINDINGS.txt");
    if let Ok(s) = std::fs::read_to_string(p) {
        for l in s.lines() {
            let l = l.trim();
            if let Some(rest) = l.strip_prefix("known:") {
                let mut id = None;
                for tok in rest.split_whitespace() {
                    if let Some(v) = tok.strip_prefix("id=") {
                        id = Some(v.to_string());
                    }
                }
                if let Some(id) = id {
                    m.insert(id, rest.trim().to_string());
                }
            }
        }
    }
    m
}

pub fn verif_dir() -> std::path::PathBuf {
    if let Ok(d) = std::env::var("VERIF_DIR") {
        return d.into();
    }
    // the binary lives in <verif>/dst/target/release/
    let exe = std::env::current_exe().expect("current_exe");
    exe.ancestors().nth(4).expect("verif dir").to_path_buf()
}

pub fn supervise(engine: &dyn Engine, tier: Tier, vseed: u64) -> RunOutcome {
    let t0 = Instant::now();
    let info = engine.info();
    let prop = info.property;
    let workers: usize = std::env::var("VERIF_WORKERS")
        .ok()
        .and_then(|s| s.parse().ok())
        .unwrap_or(16)
        .max(1);
    let scale: f64 = std::env::var("VERIF_SCALE")
        .ok()
        .and_then(|s| s.parse().ok())
        .unwrap_or(1.0);
    let n_cases = ((engine.n_cases(tier) as f64) * scale).max(1.0) as u64;
    // The CPU-time limit inside the workers is the hang detector. The wall-clock
    // watchdog only backs it up against a worker that is blocked without using CPU
    // (which nothing in this code base can do), so it is generous: on a loaded
    // machine a legitimate case must never be mistaken for a hang.
    let _ = tier;
    let watchdog = Duration::from_secs((info.cpu_limit_s.max(1) as u64 * 8).max(90));
    let wall_cap = Duration::from_secs(
        std::env::var("VERIF_WALL_CAP_S")
            .ok()
            .and_then(|s| s.parse().ok())
            .unwrap_or(match tier {
                Tier::Quick => 120,
                Tier::Thorough => 1500,
            }),
    );

    println!(
        "mbn-dst property={prop} engine={} tier={} VERIF_SEED={vseed} cases={n_cases} workers={workers}",
        info.engine,
        tier.name()
    );

    let (tx, rx) = mpsc::channel::<(usize, u64, Option<String>)>();
    let step = workers as u64;
    let mut ws: Vec<W> = (0..workers)
        .map(|wi| {
            let activity = std::sync::Arc::new(std::sync::atomic::AtomicU64::new(0));
            W {
                child: spawn_worker(
                    prop,
                    tier,
                    vseed,
                    wi as u64,
                    step,
                    n_cases,
                    wi,
                    0,
                    &tx,
                    activity.clone(),
                    t0,
                ),
                activity,
                current: None,
                tag: None,
                last_progress: Instant::now(),
                done: false,
                gen: 0,
            }
        })
        .collect();

    let mut stats = Stats::default();
    let mut found: Vec<Found> = vec![];
    let mut crashes: Vec<(u64, &'static str, Option<String>)> = vec![]; // (k, "abort"|"hang", crash tag)
    let mut harness_errors: Vec<(u64, String)> = vec![];
    let mut truncated = false;
    let mut digests: BTreeMap<u64, String> = BTreeMap::new();

    loop {
        if ws.iter().all(|w| w.done) {
            break;
        }
        if t0.elapsed() > wall_cap {
            truncated = true;
            for w in ws.iter_mut() {
                let _ = w.child.kill();
                let _ = w.child.wait();
                w.done = true;
            }
            break;
        }
        let mut idle = false;
        match rx.recv_timeout(Duration::from_millis(200)) {
            Ok((wi, gen, msg)) => {
                if ws[wi].gen != gen {
                    continue; // stale message of a killed worker
                }
                match msg {
                    Some(l) => {
                        ws[wi].last_progress = Instant::now();
                        let (tag, rest) = l.split_at(1.min(l.len()));
                        let rest = rest.trim_start();
                        match tag {
                            "S" => {
                                ws[wi].current = rest.parse().ok();
                                ws[wi].tag = None;
                            }
                            "T" => ws[wi].tag = Some(rest.to_string()),
                            "V" => {
                                if let Ok(v) = serde_json::from_str::<Value>(rest) {
                                    found.push(Found {
                                        kf: v["kf"].as_str().map(|x| x.to_string()),
                                        k: v["k"].as_u64().unwrap_or(0),
                                        class: v["class"].as_str().unwrap_or("").to_string(),
                                        detail: v["detail"].as_str().unwrap_or("").to_string(),
                                        case: if v["case"].is_null() {
                                            None
                                        } else {
                                            Some(v["case"].clone())
                                        },
                                    });
                                }
                            }
                            "H" => {
                                if let Ok(v) = serde_json::from_str::<Value>(rest) {
                                    harness_errors.push((
                                        v["k"].as_u64().unwrap_or(0),
                                        v["detail"].as_str().unwrap_or("").to_string(),
                                    ));
                                }
                            }
                            "P" => {
                                if let Ok(v) = serde_json::from_str::<Value>(rest) {
                                    stats.merge(&Stats::from_json(&v));
                                }
                            }
                            "D" => {
                                let mut it = rest.split_whitespace();
                                if let (Some(k), Some(h)) = (it.next(), it.next()) {
                                    if let Ok(k) = k.parse::<u64>() {
                                        digests.insert(k, h.to_string());
                                    }
                                }
                            }
                            "E" => {
                                ws[wi].done = true;
                                ws[wi].current = None;
                                let _ = ws[wi].child.wait();
                            }
                            _ => {}
                        }
                    }
                    None => {
                        if !ws[wi].done {
                            // worker died without saying goodbye
                            let code = ws[wi].child.wait().ok().and_then(|s| s.code());
                            match ws[wi].current {
                                Some(k) => {
                                    crashes.push((
                                        k,
                                        if code == Some(EXIT_CPU_LIMIT) {
                                            "hang"
                                        } else {
                                            "abort"
                                        },
                                        ws[wi].tag.take(),
                                    ));
                                    let next = k + step;
                                    if next < n_cases {
                                        ws[wi].gen += 1;
                                        let g = ws[wi].gen;
                                        let act = ws[wi].activity.clone();
                                        act.store(
                                            t0.elapsed().as_millis() as u64,
                                            std::sync::atomic::Ordering::Relaxed,
                                        );
                                        ws[wi].child = spawn_worker(
                                            prop, tier, vseed, next, step, n_cases, wi, g, &tx,
                                            act, t0,
                                        );
                                        ws[wi].current = None;
                                        ws[wi].last_progress = Instant::now();
                                    } else {
                                        ws[wi].done = true;
                                    }
                                }
                                None => {
                                    harness_errors
                                        .push((u64::MAX, "worker died before any case".into()));
                                    ws[wi].done = true;
                                }
                            }
                        }
                    }
                }
            }
            Err(mpsc::RecvTimeoutError::Timeout) => idle = true,
            Err(mpsc::RecvTimeoutError::Disconnected) => break,
        }
        // watchdog: only when every message read so far has been processed, and
        // judged by when the reader thread last saw a line from the worker
        for wi in 0..ws.len() {
            if ws[wi].done || !idle {
                continue;
            }
            let last = ws[wi].activity.load(std::sync::atomic::Ordering::Relaxed);
            let silent = (t0.elapsed().as_millis() as u64).saturating_sub(last);
            if silent > watchdog.as_millis() as u64 && ws[wi].last_progress.elapsed() > watchdog {
                let _ = ws[wi].child.kill();
                let _ = ws[wi].child.wait();
                ws[wi].gen += 1;
                if let Some(k) = ws[wi].current {
                    crashes.push((k, "hang", ws[wi].tag.take()));
                    let next = k + step;
                    if next < n_cases {
                        let g = ws[wi].gen;
                        let act = ws[wi].activity.clone();
                        act.store(
                            t0.elapsed().as_millis() as u64,
                            std::sync::atomic::Ordering::Relaxed,
                        );
                        ws[wi].child = spawn_worker(
                            prop, tier, vseed, next, step, n_cases, wi, g, &tx, act, t0,
                        );
                        ws[wi].current = None;
                        ws[wi].last_progress = Instant::now();
                        continue;
                    }
                } else {
                    harness_errors.push((u64::MAX, "worker stalled before any case".into()));
                }
                ws[wi].done = true;
            }
        }
    }
    let run_wall = t0.elapsed().as_secs_f64();
    if let Ok(p) = std::env::var("VERIF_DIGEST_OUT") {
        let mut s = String::new();
        for (k, h) in &digests {
            s += &format!("{k} {h}\n");
        }
        let _ = std::fs::write(p, s);
    }

    // ---------------------------------------------------------------- triage
    found.sort_by(|a, b| (a.k, &a.class).cmp(&(b.k, &b.class)));
    crashes.sort();
    let known = known_ids();
    let mut known_hit: BTreeMap<String, u64> = BTreeMap::new();
    let mut report: Vec<(String, String)> = vec![]; // (replay path, summary)
    let replay_dir = verif_dir().join("replays");
    let _ = std::fs::create_dir_all(&replay_dir);
    let mut per_class: BTreeMap<String, u32> = BTreeMap::new();
    let mut n_viol = 0u64;

    for f in &found {
        let v = Violation {
            class: f.class.clone(),
            detail: f.detail.clone(),
            case: f.case.clone(),
        };
        if let Some(id) = f.kf.as_deref().or_else(|| engine.known_finding(&v)) {
            if known.contains_key(id) {
                *known_hit.entry(id.to_string()).or_insert(0) += 1;
                continue;
            }
        }
        n_viol += 1;
        let c = per_class.entry(f.class.clone()).or_insert(0);
        *c += 1;
        if *c > 2 || report.len() >= 6 {
            continue; // enough replay files of this class
        }
        let (case, detail, nrep) = match &f.case {
            Some(c) => minimise(engine, c, &f.class, &f.detail, &known),
            None => (Value::Null, f.detail.clone(), 0),
        };
        let path = replay_dir.join(format!(
            "{prop}-{vseed}-{}-{}.json",
            f.k,
            sanitize(&f.class)
        ));
        let doc = json!({
            "property": prop, "engine": info.engine, "verif_seed": vseed, "tier": tier.name(),
            "case_index": f.k,
            "class": f.class, "detail": detail, "minimiser_replays": nrep,
            "case": case,
        });
        let _ = std::fs::write(&path, serde_json::to_string_pretty(&doc).unwrap());
        // re-execute in a fresh process
        let ok = replay_in_child(&path, watchdog);
        report.push((
            path.display().to_string(),
            format!(
                "class={} k={} confirmed_in_fresh_process={} :: {}",
                f.class, f.k, ok, detail
            ),
        ));
    }
    let mut aborted_nonviolation = 0u64;
    let mut aborted_list: Vec<Value> = vec![];
    for (k, kind, tag) in &crashes {
        if let Some(id) = engine.known_finding_crash(kind, tag.as_deref()) {
            if known.contains_key(id) {
                *known_hit.entry(id.to_string()).or_insert(0) += 1;
                continue;
            }
        }
        if !info.totality {
            // the system under test crashed or hung on a case of a property that is
            // not about totality: the case cannot be judged. Counted, listed in the
            // evidence and kept as a regenerating replay file for diagnosis.
            aborted_nonviolation += 1;
            if aborted_list.len() < 8 {
                let path = replay_dir.join(format!("{prop}-{vseed}-{k}-aborted-{kind}.json"));
                let doc = json!({
                    "property": prop, "engine": info.engine, "verif_seed": vseed, "tier": tier.name(),
                    "case_index": k, "class": kind,
                    "detail": format!("worker process {kind} while running this case (not judged: {prop} is not a totality property)"),
                    "case": Value::Null,
                });
                let _ = std::fs::write(&path, serde_json::to_string_pretty(&doc).unwrap());
                aborted_list.push(json!({"case_index": k, "kind": kind, "replay": path.display().to_string()}));
            }
            continue;
        }
        n_viol += 1;
        if report.len() >= 8 {
            continue;
        }
        let path = replay_dir.join(format!("{prop}-{vseed}-{k}-{kind}.json"));
        let doc = json!({
            "property": prop, "engine": info.engine, "verif_seed": vseed, "tier": tier.name(),
            "case_index": k, "class": kind,
            "detail": format!("worker process {kind} while running this case"),
            "case": Value::Null,
        });
        let _ = std::fs::write(&path, serde_json::to_string_pretty(&doc).unwrap());
        let ok = replay_in_child(&path, watchdog);
        report.push((
            path.display().to_string(),
            format!("class={kind} k={k} confirmed_in_fresh_process={ok}"),
        ));
    }

    // ---------------------------------------------------------------- evidence
    let evaluations = stats.get("cases");
    let wall = t0.elapsed().as_secs_f64();
    let mut cov = Map::new();
    cov.insert("evaluations".into(), json!(evaluations));
    cov.insert("distinct_nontrivial".into(), json!(stats.shapes.len()));
    cov.insert("rule".into(), json!(info.rule));
    cov.insert("samples".into(), json!(stats.samples));
    cov.insert("exhaustive".into(), json!(info.exhaustive));
    cov.insert(
        "runs_per_hour".into(),
        json!(if run_wall > 0.0 {
            (evaluations as f64 / run_wall * 3600.0) as u64
        } else {
            0
        }),
    );
    cov.insert("distinct_states".into(), json!(stats.states.len()));
    let mut faults = Map::new();
    let mut probes = Map::new();
    let mut other = Map::new();
    for (k, v) in &stats.counters {
        if let Some(f) = k.strip_prefix("fault.") {
            faults.insert(f.to_string(), json!(v));
        } else if let Some(p) = k.strip_prefix("probe.") {
            probes.insert(p.to_string(), json!(v));
        } else {
            other.insert(k.clone(), json!(v));
        }
    }
    cov.insert("faults_injected".into(), Value::Object(faults));
    cov.insert("probes".into(), Value::Object(probes));
    cov.insert("counters".into(), Value::Object(other));
    cov.insert("maxima".into(), json!(stats.maxes));
    cov.insert(
        "simulated_time_s".into(),
        json!(stats.get("sim_time_us") as f64 / 1e6),
    );
    cov.insert("aborted_cases".into(), json!(aborted_nonviolation));
    cov.insert("aborted_case_list".into(), json!(aborted_list));
    cov.insert("harness_errors".into(), json!(harness_errors.len()));
    cov.insert("known_findings_hit".into(), json!(known_hit));
    cov.insert("real_components".into(), json!(info.real_components));
    cov.insert("stubbed_components".into(), json!(info.stubbed_components));
    cov.insert("truncated".into(), json!(truncated));
    cov.insert("workers".into(), json!(workers));
    cov.insert("cases_planned".into(), json!(n_cases));
    cov.insert("engine".into(), json!(info.engine));
    let ev = json!({
        "property_id": prop, "tier": tier.name(), "seed": vseed, "level": info.level,
        "coverage": Value::Object(cov),
        "assumptions": info.assumptions,
        "wall_s": (wall * 1000.0).round() / 1000.0,
        "violations": n_viol,
    });
    // self tests that run against deliberately broken trees redirect their evidence
    // so that /verif/evidence only ever describes the tree as it is
    let evdir = match std::env::var("VERIF_EVIDENCE_DIR") {
        Ok(d) => std::path::PathBuf::from(d),
        Err(_) => verif_dir().join("evidence"),
    };
    let _ = std::fs::create_dir_all(&evdir);
    let evpath = evdir.join(format!("{prop}.json"));
    let tmp = evdir.join(format!("{prop}.json.tmp"));
    let _ = std::fs::write(&tmp, serde_json::to_string_pretty(&ev).unwrap());
    let _ = std::fs::rename(&tmp, &evpath);

    // ---------------------------------------------------------------- verdict
    for (id, n) in &known_hit {
        println!(
            "KNOWN-FINDING: {} (matched {n} case(s) in this run)",
            known.get(id).cloned().unwrap_or_default()
        );
    }
    for (path, summary) in &report {
        println!("VIOLATION property={prop} replay={path}");
        println!("  {summary}");
    }
    println!(
        "summary property={prop} cases={evaluations} distinct_nontrivial={} violations={n_viol} aborted={aborted_nonviolation} harness_errors={} truncated={truncated} wall_s={wall:.1}",
        stats.shapes.len(),
        harness_errors.len()
    );
    for (k, d) in harness_errors.iter().take(5) {
        println!("HARNESS-ERROR case={k} {d}");
    }
    let exit = if n_viol > 0 {
        1
    } else if !harness_errors.is_empty()
        || evaluations == 0
        || (aborted_nonviolation as f64) > 0.01 * (n_cases as f64)
    {
        2
    } else {
        0
    };
    RunOutcome { exit }
}

fn sanitize(s: &str) -> String {
    s.chars()
        .map(|c| if c.is_ascii_alphanumeric() { c } else { '_' })
        .take(40)
        .collect()
}

/// Delta-debugging style minimisation: take the first shrink candidate that still
/// fails with the same class, repeat until no candidate does or the budget ends.
///
/// The candidates are run in a child process (`--minimise`) under the same CPU
/// and memory limits as a worker: a shrunk case may hang or allocate without
/// bound even when the original did not (e.g. a stop condition removed by the
/// shrinker on a tree whose other stop condition is broken), and that must cost
/// one candidate, not the supervisor. A child that dies is restarted from its
/// last accepted case, past the candidate it died on.
fn minimise(
    engine: &dyn Engine,
    case: &Value,
    class: &str,
    detail: &str,
    known: &BTreeMap<String, String>,
) -> (Value, String, u64) {
    let info = engine.info();
    let dir = verif_dir().join("replays");
    let _ = std::fs::create_dir_all(&dir);
    let tag = format!("{}-{}", std::process::id(), info.property);
    let inp = dir.join(format!(".min-{tag}.in.tmp"));
    let out = dir.join(format!(".min-{tag}.out.tmp"));
    let trying = dir.join(format!(".min-{tag}.trying.tmp"));
    let t0 = Instant::now();
    let budget = Duration::from_secs(25);
    let mut cur = case.clone();
    let mut cur_detail = detail.to_string();
    let mut replays = 0u64;
    let mut skip = 0u64;
    let exe = std::env::current_exe().expect("current_exe");
    for _attempt in 0..6 {
        if t0.elapsed() > budget {
            break;
        }
        let doc = json!({
            "property": info.property, "class": class, "detail": cur_detail, "case": cur,
            "known": known.keys().collect::<Vec<_>>(), "skip": skip, "replays": replays,
            "budget_ms": budget.saturating_sub(t0.elapsed()).as_millis() as u64,
        });
        let _ = std::fs::write(&inp, doc.to_string());
        let _ = std::fs::remove_file(&out);
        let _ = std::fs::remove_file(&trying);
        let Ok(mut child) = Command::new(&exe)
            .args(["--minimise", &inp.display().to_string(), &out.display().to_string(), &trying.display().to_string()])
            .stdin(Stdio::null())
            .stdout(Stdio::null())
            .stderr(Stdio::null())
            .spawn()
        else {
            break;
        };
        let died = loop {
            match child.try_wait() {
                Ok(Some(st)) => break st.code() != Some(0),
                Ok(None) => {
                    if t0.elapsed() > budget + Duration::from_secs(15) {
                        let _ = child.kill();
                        let _ = child.wait();
                        break true;
                    }
                    std::thread::sleep(Duration::from_millis(10));
                }
                Err(_) => break true,
            }
        };
        let mut progressed = false;
        if let Ok(txt) = std::fs::read_to_string(&out) {
            if let Ok(v) = serde_json::from_str::<Value>(&txt) {
                if !v["case"].is_null() {
                    progressed = v["case"] != cur;
                    cur = v["case"].clone();
                    cur_detail = v["detail"].as_str().unwrap_or(&cur_detail).to_string();
                    replays = v["replays"].as_u64().unwrap_or(replays);
                }
            }
        }
        if !died {
            break;
        }
        // died on candidate number `trying` of the round that started from `cur`
        let t = std::fs::read_to_string(&trying)
            .ok()
            .and_then(|x| x.trim().parse::<u64>().ok())
            .unwrap_or(0);
        skip = if progressed { t + 1 } else { skip.max(t + 1) };
    }
    for f in [&inp, &out, &trying] {
        let _ = std::fs::remove_file(f);
    }
    (cur, cur_detail, replays)
}

/// `--minimise <in> <out> <trying>`: the child side of `minimise`.
pub fn minimise_file(
    inp: &str,
    out: &str,
    trying: &str,
    get_engine: &dyn Fn(&str) -> Option<Box<dyn Engine>>,
) -> i32 {
    install_panic_hook();
    limit_memory();
    REPLAY_MODE.store(8, std::sync::atomic::Ordering::Relaxed);
    let Ok(txt) = std::fs::read_to_string(inp) else { return 2 };
    let Ok(doc) = serde_json::from_str::<Value>(&txt) else { return 2 };
    let Some(engine) = get_engine(doc["property"].as_str().unwrap_or("")) else { return 2 };
    let engine = engine.as_ref();
    let class = doc["class"].as_str().unwrap_or("").to_string();
    let known: Vec<String> = doc["known"]
        .as_array()
        .map(|a| a.iter().filter_map(|x| x.as_str().map(|s| s.to_string())).collect())
        .unwrap_or_default();
    let cpu_limit = engine.info().cpu_limit_s;
    let t0 = Instant::now();
    let budget = Duration::from_millis(doc["budget_ms"].as_u64().unwrap_or(20_000));
    let mut cur = doc["case"].clone();
    let mut cur_detail = doc["detail"].as_str().unwrap_or("").to_string();
    let mut replays = doc["replays"].as_u64().unwrap_or(0);
    let mut skip = doc["skip"].as_u64().unwrap_or(0);
    let save = |cur: &Value, d: &str, n: u64| {
        let _ = std::fs::write(out, json!({"case": cur, "detail": d, "replays": n}).to_string());
    };
    'outer: loop {
        let cands = engine.shrink(&cur);
        for (i, c) in cands.into_iter().enumerate() {
            if (i as u64) < skip {
                continue;
            }
            if replays >= 3000 || t0.elapsed() > budget {
                break 'outer;
            }
            replays += 1;
            let _ = std::fs::write(trying, format!("{i}"));
            let mut st = Stats::default();
            arm_cpu_timer(cpu_limit);
            let r = std::panic::catch_unwind(std::panic::AssertUnwindSafe(|| {
                engine.replay(&c, &mut st)
            }));
            arm_cpu_timer(0);
            if let Ok(vs) = r {
                if let Some(v) = vs.iter().find(|v| {
                    v.class == class
                        && !engine
                            .known_finding(v)
                            .map(|id| known.iter().any(|k| k == id))
                            .unwrap_or(false)
                }) {
                    cur = c;
                    cur_detail = v.detail.clone();
                    skip = 0;
                    save(&cur, &cur_detail, replays);
                    continue 'outer;
                }
            }
        }
        break;
    }
    save(&cur, &cur_detail, replays);
    0
}

fn replay_in_child(path: &std::path::Path, watchdog: Duration) -> bool {
    let exe = std::env::current_exe().expect("current_exe");
    let mut child = match Command::new(exe)
        .args(["--replay", &path.display().to_string(), "--quiet"])
        .stdin(Stdio::null())
        .stdout(Stdio::null())
        .stderr(Stdio::null())
        .spawn()
    {
        Ok(c) => c,
        Err(_) => return false,
    };
    let t0 = Instant::now();
    loop {
        match child.try_wait() {
            Ok(Some(st)) => {
                // exit 1 = same violation reproduced; death by signal = abort reproduced
                return st.code() == Some(1) || st.code().is_none();
            }
            Ok(None) => {
                if t0.elapsed() > watchdog + Duration::from_secs(5) {
                    let _ = child.kill();
                    let _ = child.wait();
                    return true; // hang reproduced
                }
                std::thread::sleep(Duration::from_millis(20));
            }
            Err(_) => return false,
        }
    }
}

/// `--replay <file>`: re-run exactly that case. Exit 1 if the recorded
/// violation class reproduces, 0 if not, 2 on a harness error.
pub fn replay_file(
    path: &str,
    quiet: bool,
    get_engine: &dyn Fn(&str) -> Option<Box<dyn Engine>>,
) -> i32 {
    install_panic_hook();
    let Ok(s) = std::fs::read_to_string(path) else {
        eprintln!("cannot read {path}");
        return 2;
    };
    let Ok(doc) = serde_json::from_str::<Value>(&s) else {
        eprintln!("cannot parse {path}");
        return 2;
    };
    let prop = doc["property"].as_str().unwrap_or("");
    let Some(engine) = get_engine(prop) else {
        eprintln!("unknown property {prop}");
        return 2;
    };
    let class = doc["class"].as_str().unwrap_or("").to_string();
    let mut stats = Stats::default();
    let cpu_limit = engine.info().cpu_limit_s;
    if class == "hang" {
        // the recorded violation is a hang: it reproduces when the CPU limit fires
        let msg = if quiet {
            String::new()
        } else {
            format!("replay: CPU-time limit of {cpu_limit} s reached\nVIOLATION property={prop} replay={path}\n")
        };
        unsafe {
            REPLAY_HANG_MSG = Some(msg.into_bytes());
        }
    }
    limit_memory();
    REPLAY_MODE.store(32, std::sync::atomic::Ordering::Relaxed);
    arm_cpu_timer(cpu_limit);
    let vs = if doc["case"].is_null() {
        // regenerate from (seed, index); a crash or hang reproduces by itself
        let k = doc["case_index"].as_u64().unwrap_or(0);
        let vseed = doc["verif_seed"].as_u64().unwrap_or(1);
        let tier = Tier::parse(doc["tier"].as_str().unwrap_or("quick")).unwrap_or(Tier::Quick);
        engine.run_case(k, case_seed(vseed, prop, k), tier, &mut stats)
    } else {
        engine.replay(&doc["case"], &mut stats)
    };
    arm_cpu_timer(0);
    let mut hit = false;
    for v in &vs {
        if !quiet {
            println!("replay: class={} :: {}", v.class, v.detail);
        }
        if v.class == class {
            hit = true;
        }
    }
    if hit {
        if !quiet {
            println!("VIOLATION property={prop} replay={path}");
        }
        1
    } else {
        if !quiet {
            println!("replay: recorded class '{class}' did not reproduce");
        }
        0
    }
}

/// Hash helper for run shapes.
pub fn shape_hash(parts: impl Iterator<Item = u64>) -> u64 {
    let mut h = Fnv::default();
    for p in parts {
        h.u64(p);
    }
    h.0
}

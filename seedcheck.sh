#!/bin/bash
# seedcheck.sh <worktree> <seed-id> <prop> [more props...]
# Confirms a seeded change delivered in <worktree>/seeded_out (patch.diff, demo.rs, notes.md):
#   1. patch applies to the repo HEAD, workspace compiles, existing suite passes with it
#   2. demo fails with the patch, passes without
#   3. runs the given checks against /repo with the patch applied (then reverts)
# and stores everything under /verif/seeded/<seed-id>/
set -u
export VERIF_EVIDENCE_DIR=/var/tmp/mbn-selftest-evidence   # never overwrite /verif/evidence from a broken tree
WT=$1; ID=$2; shift 2
OUT=/verif/seeded/$ID
mkdir -p $OUT
cp $WT/seeded_out/patch.diff $OUT/patch.diff
cp $WT/seeded_out/demo.rs $OUT/demo.rs
cp $WT/seeded_out/notes.md $OUT/agent_notes.md 2>/dev/null
export CARGO_NET_OFFLINE=true
cd $WT || exit 3
DEMO=$(git status --porcelain -uall | grep -v ' target/' | grep '^??' | grep -v seeded_out | grep '\.rs$' | awk '{print $2}' | head -1)
echo "demo file: $DEMO"
DEMONAME=$(basename $DEMO .rs)
DEMOCRATE=$(echo $DEMO | sed 's#crates/\([^/]*\)/.*#\1#')
cp $DEMO /tmp/$ID-demo.rs
git checkout -q -- . && rm -f $DEMO
git apply --check $OUT/patch.diff || { echo "PATCH DOES NOT APPLY"; exit 3; }
git apply $OUT/patch.diff
suite=$(cargo test --workspace --no-fail-fast --offline --target-dir $WT/target 2>&1 | grep -E "^test result|^error" | awk '/^error/{e++} {p+=$4; f+=$6} END {print "passed="p" failed="f" errors="e+0}')
echo "suite with patch: $suite"
cp /tmp/$ID-demo.rs $DEMO
with=$(cargo test -p $DEMOCRATE --test $DEMONAME --offline --target-dir $WT/target 2>&1 | grep -E "^test result" | head -1)
echo "demo with patch: $with"
git apply -R $OUT/patch.diff
without=$(cargo test -p $DEMOCRATE --test $DEMONAME --offline --target-dir $WT/target 2>&1 | grep -E "^test result" | head -1)
echo "demo without patch: $without"
rm -f $DEMO
# now the checks against /repo (SEEDCHECK_PHASE=1: stop here, only confirm suite + demo)
if [ "${SEEDCHECK_PHASE:-}" = 1 ]; then echo "suite with patch: $suite" > $OUT/confirm1.txt; echo "demo ($DEMO) with patch: $with" >> $OUT/confirm1.txt; echo "demo without patch: $without" >> $OUT/confirm1.txt; exit 0; fi
cd /verif
git -C /repo apply $OUT/patch.diff || { echo "PATCH DOES NOT APPLY TO /repo"; exit 3; }
results=""
for p in "$@"; do
  o=$(./check $p quick 2>&1); rc=$?
  cls=$(echo "$o" | grep '^  class' | head -1 | cut -c1-300)
  echo "check $p quick: exit=$rc $cls"
  results="$results\"$p\": {\"exit\": $rc, \"first\": $(python3 -c 'import json,sys; print(json.dumps(sys.argv[1]))' "$cls")}, "
done
git -C /repo checkout -- .
cat > $OUT/confirm.txt <<EOT
suite with patch: $suite
demo ($DEMO) with patch: $with
demo without patch: $without
checks with patch applied to /repo: {${results%, }}
EOT
cat $OUT/confirm.txt | tail -1

#!/bin/bash
# selftest.sh determinism [props...]   every case of every quick check is executed in two
#                                      separate supervisor runs (16 workers vs 3 workers, so that
#                                      each case lands in a different process with different
#                                      neighbours); the per-case digests (all counters, shapes,
#                                      abstract states, violations) must be identical
# selftest.sh mutants [ids...]         same for the harness's own mutants in /verif/mutants
# selftest.sh seeded [ids...]          applies each /verif/seeded/<id>/patch.diff to /repo, runs the
#                                      check of the property it breaks (must exit 1), reverts
set -u
export VERIF_EVIDENCE_DIR=/var/tmp/mbn-selftest-evidence   # never overwrite /verif/evidence from a broken tree
HERE="$(cd "$(dirname "$0")" && pwd)"
cd "$HERE"
BIN="$HERE/dst/target/release/mbn-dst"
export VERIF_DIR="$HERE"
what="${1:-}"; shift || true
case "$what" in
  determinism)
    props=("$@"); [ ${#props[@]} -eq 0 ] && props=(C01 C02 C03 C04 C05 C06 C07 C08 C09 C10 C11 C13 C14 C15 C16 C17 C18 C19 C20)
    rc=0
    tmp=$(mktemp -d /var/tmp/mbn-selftest.XXXXXX)
    for p in "${props[@]}"; do
      VERIF_SCALE=${VERIF_SELFTEST_SCALE:-0.05} VERIF_WORKERS=16 VERIF_DIGEST_OUT=$tmp/a VERIF_DIR=$tmp/ev "$BIN" check $p quick >/dev/null 2>&1
      VERIF_SCALE=${VERIF_SELFTEST_SCALE:-0.05} VERIF_WORKERS=3  VERIF_DIGEST_OUT=$tmp/b VERIF_DIR=$tmp/ev "$BIN" check $p quick >/dev/null 2>&1
      n=$(wc -l < $tmp/a)
      if cmp -s $tmp/a $tmp/b && [ "$n" -gt 0 ]; then echo "determinism $p: $n cases, digests identical (16 vs 3 workers)"
      else echo "determinism $p: DIFFERENT ($(diff $tmp/a $tmp/b | grep -c '^<') of $n cases differ)"; rc=1; fi
    done
    rm -rf $tmp
    exit $rc ;;
  seeded)
    ids=("$@"); [ ${#ids[@]} -eq 0 ] && ids=($(ls "$HERE/seeded"))
    rc=0
    for id in "${ids[@]}"; do
      prop=$(python3 -c "import json;print(json.load(open('$HERE/seeded/$id/meta.json'))['breaks_property'])")
      git -C /repo apply "$HERE/seeded/$id/patch.diff" || { echo "seeded $id: patch does not apply"; rc=1; continue; }
      out=$("$HERE/check" $prop quick 2>&1); code=$?
      git -C /repo checkout -- .
      if [ $code -eq 1 ]; then echo "seeded $id: caught by $prop ($(echo "$out" | grep -m1 '^  class' | cut -c3-120))"
      else echo "seeded $id: NOT caught by $prop (exit $code)"; rc=1; fi
    done
    "$HERE/check" --build >/dev/null
    exit $rc ;;
  mutants)
    # the harness's own deliberately broken variants (/verif/mutants/*.diff + .prop)
    ids=("$@"); [ ${#ids[@]} -eq 0 ] && ids=($(ls "$HERE/mutants" | grep '\.diff$' | sed 's/\.diff$//'))
    rc=0
    for id in "${ids[@]}"; do
      prop=$(cat "$HERE/mutants/$id.prop")
      git -C /repo apply "$HERE/mutants/$id.diff" || { echo "mutant $id: patch does not apply"; rc=1; continue; }
      out=$("$HERE/check" $prop quick 2>&1); code=$?
      git -C /repo checkout -- .
      if [ $code -eq 1 ]; then echo "mutant $id: caught by $prop ($(echo "$out" | grep -m1 '^  class' | cut -c3-110))"
      else echo "mutant $id: NOT caught by $prop (exit $code)"; rc=1; fi
    done
    "$HERE/check" --build >/dev/null
    exit $rc ;;
  refactors)
    # behaviour-preserving refactorings (/verif/refactors/*.diff): every check must stay quiet
    ids=("$@"); [ ${#ids[@]} -eq 0 ] && ids=($(ls "$HERE/refactors" | grep '\.diff$' | sed 's/\.diff$//'))
    rc=0
    for id in "${ids[@]}"; do
      git -C /repo apply "$HERE/refactors/$id.diff" || { echo "refactor $id: patch does not apply"; rc=1; continue; }
      bad=""
      for p in C01 C02 C03 C04 C05 C06 C07 C08 C09 C10 C11 C13 C14 C15 C16 C17 C18 C19 C20; do
        out=$("$HERE/check" $p quick 2>&1); code=$?
        [ $code -ne 0 ] && bad="$bad $p(exit $code: $(echo "$out" | grep -m1 '^  class' | cut -c3-90))"
      done
      git -C /repo checkout -- .
      if [ -z "$bad" ]; then echo "refactor $id: all 19 checks quiet"; else echo "refactor $id: ALARM:$bad"; rc=1; fi
    done
    "$HERE/check" --build >/dev/null
    exit $rc ;;
  *) echo "usage: selftest.sh determinism|seeded|mutants|refactors [...]"; exit 2 ;;
esac

#!/bin/bash
# seedrecheck.sh <seed-id> <prop> [more props...]
# Re-runs the given quick checks against /repo with /verif/seeded/<id>/patch.diff applied (then
# reverts) and rewrites the "checks with patch" line of confirm.txt; the suite / demo lines
# (confirmed once in the agent's scratch worktree by seedcheck.sh) are kept.
set -u
export VERIF_EVIDENCE_DIR=/var/tmp/mbn-selftest-evidence
ID=$1; shift; OUT=/verif/seeded/$ID; cd /verif
[ -z "$(git -C /repo status --porcelain)" ] || { echo "/repo is not clean"; exit 3; }
git -C /repo apply $OUT/patch.diff || { echo "PATCH DOES NOT APPLY TO /repo"; exit 3; }
results=""
for p in "$@"; do
  o=$(./check $p quick 2>&1); rc=$?
  cls=$(echo "$o" | grep '^  class' | head -1 | cut -c1-300)
  echo "$ID check $p quick: exit=$rc $cls"
  results="$results\"$p\": {\"exit\": $rc, \"first\": $(python3 -c 'import json,sys; print(json.dumps(sys.argv[1]))' "$cls")}, "
done
git -C /repo checkout -- .
if [ -f $OUT/confirm1.txt ]; then mv $OUT/confirm1.txt $OUT/confirm.txt; fi
grep -v '^checks with patch applied' $OUT/confirm.txt > $OUT/confirm.tmp
echo "checks with patch applied to /repo: {${results%, }}" >> $OUT/confirm.tmp
mv $OUT/confirm.tmp $OUT/confirm.txt

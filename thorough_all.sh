#!/bin/bash
# runs every thorough check once (optionally with a given VERIF_SEED) and prints one line per property
cd "$(dirname "$0")"
[ -n "${VERIF_SKIP_BUILD:-}" ] || ./check --build >/dev/null || exit 2   # VERIF_SKIP_BUILD=1: reuse the binary (sweeps over several seeds while /repo is being patched for other tests)
for p in C01 C02 C03 C04 C05 C06 C07 C08 C09 C10 C11 C13 C14 C15 C16 C17 C18 C19 C20; do
  out=$(./dst/target/release/mbn-dst check $p ${1:-thorough} 2>&1); rc=$?
  echo "$p exit=$rc $(echo "$out" | grep '^summary')"
  echo "$out" | grep -E "^VIOLATION|^  class|HARNESS" | head -6
done

#!/usr/bin/env python3
"""seedmeta.py <id> <property> <change> <needs> [note]  -- writes /verif/seeded/<id>/meta.json from confirm.txt"""
import json, re, sys
sid, prop, what, needs = sys.argv[1:5]
note = sys.argv[5] if len(sys.argv) > 5 else ""
d = f"/verif/seeded/{sid}"
conf = open(f"{d}/confirm.txt").read()
checks = json.loads(conf.split("checks with patch applied to /repo: ")[1])
m = {"id": sid, "breaks_property": prop, "change": what, "needs_to_manifest": needs,
     "origin": "independent sub-agent given only the property text (later batches: plus a one-line steer towards other code areas) and a scratch worktree",
     "confirmed": {"existing_suite_with_patch": re.search(r"suite with patch: (.*)", conf).group(1),
                   "demo_with_patch": (re.search(r"with patch: (test result.*)", conf) or [None, ""])[1],
                   "demo_without_patch": re.search(r"without patch: (.*)", conf).group(1)},
     "ran": ["/verif/seedcheck.sh (cargo test --workspace in the scratch worktree with the patch; demo with and without the patch; git -C /repo apply patch.diff; ./check <prop> quick; git -C /repo checkout -- .)"],
     "checks_with_patch": {k: {"exit": v["exit"], "first_violation": v["first"].strip()} for k, v in checks.items()},
     "caught_by": [k for k, v in checks.items() if v["exit"] == 1]}
if note:
    m["note"] = note
json.dump(m, open(f"{d}/meta.json", "w"), indent=1)
print(sid, m["caught_by"])

#!/bin/bash
export VERIF_EVIDENCE_DIR=/var/tmp/mbn-selftest-evidence   # never overwrite /verif/evidence from a broken tree
# usage: revtest.sh <commit> <prop>...   temporarily reverts a repo commit in the working tree and runs checks
c=$1; shift
git -C /repo diff $c^ $c | git -C /repo apply -R || exit 3
for p in "$@"; do
  out=$(./check $p quick 2>&1)
  echo "$p exit=$? $(echo "$out" | grep -c '^VIOLATION') VIOLATION lines; $(echo "$out" | grep '^  class' | head -2 | cut -c1-260)"
done
git -C /repo checkout -- .

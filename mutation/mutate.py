#!/usr/bin/env python3
"""Mechanical mutation campaign against /repo (sensitivity measurement, DESIGN.md §9).

  mutate.py list                 -> all candidate sites (file:line:col op), deterministic order
  mutate.py run <n> [seed]       -> sample n sites (seeded), for each: apply to /repo, rebuild the
                                    harness, run the quick checks mapped to the file until one
                                    reports a violation, revert; results appended to
                                    /verif/mutation/results.jsonl
  mutate.py suite                -> for every survivor in results.jsonl run the repo's own test
                                    suite with the mutant applied (is it a change the suite lets
                                    through?), result appended as 'suite' field to survivors.jsonl

Nothing here is registered in MANIFEST.json; /repo is always restored with `git checkout -- .`.
"""
import json, os, random, re, subprocess, sys, time

REPO = "/repo"
FILES = {
    "crates/maybenot/src/framework.rs": ["C05", "C01", "C04", "C02", "C03", "C07", "C08", "C09", "C10", "C20"],
    "crates/maybenot/src/state.rs": ["C06", "C05", "C11", "C01", "C13"],
    "crates/maybenot/src/action.rs": ["C04", "C05", "C07", "C01"],
    "crates/maybenot/src/counter.rs": ["C08", "C05", "C11", "C01"],
    "crates/maybenot/src/dist.rs": ["C13", "C04", "C05", "C01"],
    "crates/maybenot/src/time.rs": ["C03", "C05", "C01"],
    "crates/maybenot/src/event.rs": ["C06", "C05", "C20"],
    "crates/maybenot/src/machine.rs": ["C11", "C05", "C01"],
    "crates/maybenot/src/parsing.rs": ["C11"],
    "crates/maybenot-simulator/src/lib.rs": ["C17", "C15", "C16", "C18", "C14", "C19"],
    "crates/maybenot-simulator/src/network.rs": ["C15", "C14", "C19", "C16"],
    "crates/maybenot-simulator/src/queue.rs": ["C15", "C14", "C16", "C19", "C17"],
    "crates/maybenot-simulator/src/queue_event.rs": ["C15", "C16", "C14", "C19"],
    "crates/maybenot-simulator/src/queue_peek.rs": ["C17", "C16", "C18", "C15", "C14", "C19"],
    "crates/maybenot-simulator/src/delay.rs": ["C15", "C19", "C16", "C14"],
    "crates/maybenot-ffi/src/lib.rs": ["C20"],
    "crates/maybenot-ffi/src/ffi.rs": ["C20"],
}
# (regex, replacement, name); applied to code with comments stripped from consideration
OPS = [
    (r" <= ", " < ", "le->lt"), (r" < ", " <= ", "lt->le"),
    (r" >= ", " > ", "ge->gt"), (r" > ", " >= ", "gt->ge"),
    (r" == ", " != ", "eq->ne"), (r" != ", " == ", "ne->eq"),
    (r" \+ ", " - ", "add->sub"), (r" - ", " + ", "sub->add"),
    (r" \+= ", " -= ", "addassign->subassign"), (r" -= ", " += ", "subassign->addassign"),
    (r" && ", " || ", "and->or"), (r" \|\| ", " && ", "or->and"),
    (r"saturating_add", "saturating_sub", "satadd->satsub"), (r"saturating_sub", "saturating_add", "satsub->satadd"),
    (r"\.min\(", ".max(", "min->max"), (r"\.max\(", ".min(", "max->min"),
    (r"pop_front", "pop_back", "popfront->popback"), (r"push_back", "push_front", "pushback->pushfront"),
    (r"is_some\(\)", "is_none()", "some->none"), (r"is_none\(\)", "is_some()", "none->some"),
    (r"if !", "if ", "drop-not"),
    (r"\btrue\b", "false", "true->false"), (r"\bfalse\b", "true", "false->true"),
    (r"unwrap_or\(true\)", "unwrap_or(false)", "unwrap_or_true->false"),
    (r"\.0\b", ".1", "tuple0->1"),
    (r"\bclient\.", "server.", "client->server"), (r"\bserver\.", "client.", "server->client"),
    (r"\bbreak;", "continue;", "break->continue"),
    (r"\* 10\b", "* 5", "x10->x5"), (r"\b1_000\b", "1_000_000", "1e3->1e6"),
]


def sites():
    out = []
    for f in FILES:
        lines = open(os.path.join(REPO, f)).read().split("\n")
        in_test = False
        skip_next = 0
        for i, l in enumerate(lines):
            st = l.strip()
            if st.startswith("#[cfg(test)]"):
                in_test = True
            if in_test:
                continue
            if "cfg(maybenot_verif)" in l:
                skip_next = 8  # the guarded statement that follows
                continue
            if skip_next:
                skip_next -= 1
                if st.endswith(");") or st.endswith("}") or st == "":
                    skip_next = 0
                continue
            if st.startswith("//") or st.startswith("#[") or st.startswith("debug!") or st.startswith("use ") \
               or st.startswith("assert") or st.startswith("panic!") or "debug!(" in l or st.startswith("///"):
                continue
            code = l.split("//")[0]
            if "fmt::" in code or "write!(" in code or "format!(" in code:
                continue
            for rx, rep, name in OPS:
                for m in re.finditer(rx, code):
                    # generics / arrows are not comparisons
                    if name in ("lt->le", "gt->ge") and ("->" in code[max(0, m.start() - 2):m.end() + 1] or "=>" in code[max(0, m.start()-2):m.end()+1]):
                        continue
                    out.append({"file": f, "line": i + 1, "col": m.start(), "op": name, "rx": rx, "rep": rep})
    return out


def apply(site):
    p = os.path.join(REPO, site["file"])
    lines = open(p).read().split("\n")
    l = lines[site["line"] - 1]
    m = re.compile(site["rx"]).match(l, site["col"])
    if not m:
        return None
    new = l[:m.start()] + site["rep"] + l[m.end():]
    lines[site["line"] - 1] = new
    open(p, "w").write("\n".join(lines))
    return (l.strip(), new.strip())


def revert():
    subprocess.run(["git", "-C", REPO, "checkout", "--", "."], check=True)


def sh(cmd, timeout=900):
    try:
        r = subprocess.run(cmd, shell=True, capture_output=True, text=True, timeout=timeout)
        return r.returncode, r.stdout + r.stderr
    except subprocess.TimeoutExpired:
        return 124, "timeout"


def run(n, seed):
    env = "VERIF_EVIDENCE_DIR=/var/tmp/mbn-selftest-evidence "
    allsites = sites()
    rnd = random.Random(seed)
    # stratify: per file, proportional but at least 3
    byfile = {}
    for s in allsites:
        byfile.setdefault(s["file"], []).append(s)
    total = len(allsites)
    chosen = []
    for f, ss in byfile.items():
        k = max(3, round(n * len(ss) / total))
        chosen += rnd.sample(ss, min(k, len(ss)))
    rnd.shuffle(chosen)
    done = set()
    res_path = "/verif/mutation/results.jsonl"
    if os.path.exists(res_path):
        for l in open(res_path):
            d = json.loads(l)
            done.add((d["file"], d["line"], d["col"], d["op"]))
    assert subprocess.run(["git", "-C", REPO, "status", "--porcelain"], capture_output=True, text=True).stdout == "", "/repo not clean"
    for s in chosen:
        key = (s["file"], s["line"], s["col"], s["op"])
        if key in done:
            continue
        t0 = time.time()
        ch = apply(s)
        if ch is None:
            continue
        rec = dict(file=s["file"], line=s["line"], col=s["col"], op=s["op"], before=ch[0], after=ch[1])
        rc, out = sh("cd /verif && ./check --build")
        if rc != 0:
            rec["result"] = "does-not-compile"
        else:
            rec["result"] = "survived"
            rec["ran"] = []
            for p in FILES[s["file"]]:
                rc, out = sh(env + f"/verif/check {p} quick", timeout=600)
                rec["ran"].append([p, rc])
                if rc == 1:
                    cls = [l for l in out.split("\n") if l.startswith("  class")]
                    rec["result"] = "caught"
                    rec["by"] = p
                    rec["class"] = cls[0][:200] if cls else ""
                    break
        revert()
        rec["secs"] = round(time.time() - t0, 1)
        open(res_path, "a").write(json.dumps(rec) + "\n")
        print(rec["result"], rec.get("by", ""), s["file"].split("/")[-1], s["line"], s["op"], "|", rec["after"][:90], flush=True)
    sh("cd /verif && ./check --build")


def suite():
    res = [json.loads(l) for l in open("/verif/mutation/results.jsonl")]
    surv = [r for r in res if r["result"] == "survived"]
    out_path = "/verif/mutation/survivors.jsonl"
    done = set()
    if os.path.exists(out_path):
        for l in open(out_path):
            d = json.loads(l)
            done.add((d["file"], d["line"], d["col"], d["op"]))
    for r in surv:
        if (r["file"], r["line"], r["col"], r["op"]) in done:
            continue
        site = dict(file=r["file"], line=r["line"], col=r["col"], op=r["op"])
        for rx, rep, name in OPS:
            if name == r["op"]:
                site["rx"], site["rep"] = rx, rep
        apply(site)
        rc, out = sh("cd /repo && CARGO_NET_OFFLINE=true cargo test --workspace --no-fail-fast --offline 2>&1 | grep -E '^test result|FAILED|^error' | head -40", timeout=1800)
        failed = sum(int(m.group(1)) for m in re.finditer(r"(\d+) failed", out))
        errors = len(re.findall(r"^error", out, re.M))
        revert()
        r["suite"] = "passes" if failed == 0 and errors == 0 else f"fails ({failed} failed, {errors} errors)"
        open(out_path, "a").write(json.dumps(r) + "\n")
        print(r["suite"], r["file"].split("/")[-1], r["line"], r["op"], "|", r["after"][:100], flush=True)


def second_pass():
    """survivors whose file mapping did not include the property that owns them, or that
    survived before the harness was strengthened: re-run against a wider list of checks"""
    env = "VERIF_EVIDENCE_DIR=/var/tmp/mbn-selftest-evidence "
    res = [json.loads(l) for l in open("/verif/mutation/results.jsonl")]
    want = {("state.rs", 102), ("state.rs", 116), ("state.rs", 125), ("state.rs", 138), ("dist.rs", 256),
            ("dist.rs", 257), ("dist.rs", 258), ("dist.rs", 219), ("dist.rs", 210), ("machine.rs", 86),
            ("framework.rs", 131), ("lib.rs", 586), ("counter.rs", 58), ("counter.rs", 68), ("counter.rs", 78)}
    out_path = "/verif/mutation/second_pass.jsonl"
    for r in res:
        if r["result"] != "survived" or (r["file"].split("/")[-1], r["line"]) not in want:
            continue
        site = dict(file=r["file"], line=r["line"], col=r["col"], op=r["op"])
        for rx, rep, name in OPS:
            if name == r["op"]:
                site["rx"], site["rep"] = rx, rep
        if apply(site) is None:
            continue
        checks = ["C19", "C15"] if "simulator" in r["file"] else ["C01", "C05", "C13", "C08", "C11"]
        rec = dict(r); rec["ran2"] = []; rec["result2"] = "survived"
        rc, out = sh("cd /verif && ./check --build")
        if rc == 0:
            for p in checks:
                rc, out = sh(env + f"/verif/check {p} quick", timeout=900)
                rec["ran2"].append([p, rc])
                if rc == 1:
                    cls = [l for l in out.split("\n") if l.startswith("  class")]
                    rec["result2"] = "caught"; rec["by2"] = p; rec["class2"] = cls[0][:160] if cls else ""
                    break
        revert()
        open(out_path, "a").write(json.dumps(rec) + "\n")
        print(rec["result2"], rec.get("by2", ""), r["file"].split("/")[-1], r["line"], r["op"], "|", r["after"][:80], flush=True)
    sh("cd /verif && ./check --build")


if __name__ == "__main__":
    if sys.argv[1] == "list":
        ss = sites()
        from collections import Counter
        print(len(ss), Counter(s["file"].split("/")[-1] for s in ss))
    elif sys.argv[1] == "run":
        run(int(sys.argv[2]), int(sys.argv[3]) if len(sys.argv) > 3 else 1)
    elif sys.argv[1] == "suite":
        suite()
    elif sys.argv[1] == "second":
        second_pass()
